// copy to airgapped/zz_finding_c12_test.go ; run: go test -vet=off -count=1 -run TestFindingC12ResponsesStepReplaysIdentically ./airgapped/
package airgapped

// Finding: the per-round suite is seeded deterministically (sha256(roundID || baseSeed)), so after
// a restart + ReplayOperationsLog the stream that feeds the Schnorr nonces starts again at the same
// position.  dkg.ProcessDeals iterates d.deals, a Go map, so the order in which the responses are
// produced - and therefore WHICH response is signed with WHICH nonce - changes from run to run.
// Two result files of the same responses operation (original run + replay) then contain two Schnorr
// signatures with the same commitment R on different messages, from which the long-term private
// DKG key of the machine follows: x = (s1 - s2) / (e1 - e2).
//
// What the test does (n=7, t=3, own temp directory):
//   1. seven machines run the real commits and deals steps (operations are stored in each machine's
//      operation log, as the CLI does); machine #0 now holds six deals;
//   2. machine #0 handles ONE fixed responses operation (same ID, same CreatedAt, same payload bytes);
//      the Data bytes of its single result message are recorded;
//   3. twelve times: close the DB, open a new Machine on the same DB, InitKeys, ReplayOperationsLog,
//      handle the very same responses operation, record the Data bytes of the result message.
// Compared, for every replay against the first run:
//   (a) the result message Data, BYTE FOR BYTE, no normalisation
//       (Data = JSON of requests.DKGProposalResponseConfirmationRequest{ParticipantId, Response, CreatedAt},
//        Response = JSON list of kyber dkg responses);
//   (b) the same after normalising ONLY the order of the list: the elements of Response are sorted by
//       the dealer index (Response.Index) and each element re-marshalled; this tells "only the order
//       moved" from "the signatures themselves differ".
// The test requires (a) for all replays.  It also reports the number of distinct results, whether (b)
// holds, and whether two signatures from different runs share R on different messages (in which case
// the private key is recomputed from them and checked against the public key).

import (
	"bytes"
	"crypto/sha512"
	"encoding/json"
	"fmt"
	"path/filepath"
	"sort"
	"testing"

	"github.com/corestario/kyber"
	dkgPedersen "github.com/corestario/kyber/share/dkg/pedersen"
	"github.com/stretchr/testify/require"

	"github.com/lidofinance/dc4bc/fsm/state_machines/dkg_proposal_fsm"
	"github.com/lidofinance/dc4bc/fsm/types/requests"
	"github.com/lidofinance/dc4bc/fsm/types/responses"
)

// findingC12Challenge is kyber's sign/schnorr.hash (unexported there): H(R || A || msg).
func findingC12Challenge(g kyber.Group, public, r kyber.Point, msg []byte) kyber.Scalar {
	h := sha512.New()
	_, _ = r.MarshalTo(h)
	_, _ = public.MarshalTo(h)
	_, _ = h.Write(msg)
	return g.Scalar().SetBytes(h.Sum(nil))
}

func TestFindingC12ResponsesStepReplaysIdentically(t *testing.T) {
	const (
		n         = 7
		threshold = 3
		replays   = 12
	)
	dir := t.TempDir()
	dbPath := func(i int) string { return filepath.Join(dir, fmt.Sprintf("airgapped-db-%d", i)) }
	password := func(i int) []byte { return []byte(fmt.Sprintf("finding-c12-password-%d", i)) }

	tr := &Transport{}
	for i := 0; i < n; i++ {
		am, err := NewMachine(dbPath(i))
		require.NoError(t, err)
		am.SetResultFolder(dir)
		am.SetEncryptionKey(password(i))
		require.NoError(t, am.InitKeys())
		tr.nodes = append(tr.nodes, &Node{ParticipantID: i, Participant: fmt.Sprintf("Participant#%d", i), Machine: am})
	}
	defer func() {
		for _, node := range tr.nodes[1:] {
			_ = node.Machine.db.Close()
		}
	}()

	require.NoError(t, tr.commitsStep(threshold))
	require.NoError(t, tr.dealsStep())

	n0 := tr.nodes[0]
	var payload responses.DKGProposalDealParticipantResponse
	for _, req := range n0.deals {
		payload = append(payload, &responses.DKGProposalDealParticipantEntry{
			ParticipantId: req.ParticipantId,
			Username:      fmt.Sprintf("Participant#%d", req.ParticipantId),
			DkgDeal:       req.Deal,
		})
	}
	require.Len(t, payload, n) // n-1 deals + the "self-confirm" marker
	op, err := createOperation(string(dkg_proposal_fsm.StateDkgResponsesAwaitConfirmations), "", payload)
	require.NoError(t, err)

	type signed struct {
		run int
		msg []byte // what the signature is on: vss.Response.Hash
		sig []byte // R || s
	}
	var (
		raw        [][]byte // (a) result message Data of every run
		normalised [][]byte // (b) the same with the response list sorted by dealer index
		sigs       []signed
	)
	runResponsesStep := func(run int, m *Machine) {
		res, err := m.GetOperationResult(*op)
		require.NoError(t, err)
		require.Len(t, res.ResultMsgs, 1)
		require.Equal(t, string(dkg_proposal_fsm.EventDKGResponseConfirmationReceived), res.ResultMsgs[0].Event,
			"responses step failed: %s", string(res.ResultMsgs[0].Data))
		raw = append(raw, res.ResultMsgs[0].Data)

		var req requests.DKGProposalResponseConfirmationRequest
		require.NoError(t, json.Unmarshal(res.ResultMsgs[0].Data, &req))
		var list []*dkgPedersen.Response
		require.NoError(t, json.Unmarshal(req.Response, &list))
		require.Len(t, list, n-1)
		sort.SliceStable(list, func(i, j int) bool { return list[i].Index < list[j].Index })
		var norm bytes.Buffer
		for _, r := range list {
			bz, err := json.Marshal(r)
			require.NoError(t, err)
			norm.Write(bz)
			norm.WriteByte('\n')
			sigs = append(sigs, signed{run: run, msg: r.Response.Hash(m.baseSuite), sig: r.Response.Signature})
		}
		normalised = append(normalised, norm.Bytes())
	}

	runResponsesStep(0, n0.Machine)
	g := n0.Machine.baseSuite
	publicKey := n0.Machine.GetPubKey().Clone()
	require.NoError(t, n0.Machine.db.Close())

	for run := 1; run <= replays; run++ {
		m, err := NewMachine(dbPath(0))
		require.NoError(t, err)
		m.SetResultFolder(dir)
		m.SetEncryptionKey(password(0))
		require.NoError(t, m.InitKeys())
		require.NoError(t, m.ReplayOperationsLog(DKGIdentifier))
		runResponsesStep(run, m)
		require.NoError(t, m.db.Close())
	}

	distinctRaw, distinctNorm := map[string]int{}, map[string]int{}
	differing := 0
	for run := range raw {
		distinctRaw[string(raw[run])]++
		distinctNorm[string(normalised[run])]++
		if run > 0 && !bytes.Equal(raw[0], raw[run]) {
			differing++
		}
	}

	// same R, different message, in two different runs?
	nonceReuse := "no pair of signatures with the same R on different messages"
	pl := g.PointLen()
search:
	for i := range sigs {
		for j := i + 1; j < len(sigs); j++ {
			a, b := sigs[i], sigs[j]
			if a.run == b.run || !bytes.Equal(a.sig[:pl], b.sig[:pl]) || bytes.Equal(a.msg, b.msg) {
				continue
			}
			R, s1, s2 := g.Point(), g.Scalar(), g.Scalar()
			require.NoError(t, R.UnmarshalBinary(a.sig[:pl]))
			require.NoError(t, s1.UnmarshalBinary(a.sig[pl:]))
			require.NoError(t, s2.UnmarshalBinary(b.sig[pl:]))
			e1 := findingC12Challenge(g, publicKey, R, a.msg)
			e2 := findingC12Challenge(g, publicKey, R, b.msg)
			x := g.Scalar().Div(g.Scalar().Sub(s1, s2), g.Scalar().Sub(e1, e2))
			nonceReuse = fmt.Sprintf("runs %d and %d contain signatures with the same R on different messages; "+
				"(s1-s2)/(e1-e2) is the long-term private key of machine #0 (x*G == its public DKG key): %v",
				a.run, b.run, g.Point().Mul(x, nil).Equal(publicKey))
			break search
		}
	}

	t.Logf("%d runs of the same responses operation (1 original + %d replays): %d distinct results byte for byte, "+
		"%d distinct after sorting the response list by dealer index; %s",
		len(raw), replays, len(distinctRaw), len(distinctNorm), nonceReuse)

	if differing > 0 {
		t.Fatalf("%d of %d replays of the responses step produced a result message different from the original run "+
			"(%d distinct results; %d distinct even after normalising the list order); %s",
			differing, replays, len(distinctRaw), len(distinctNorm), nonceReuse)
	}
}
