package airgapped

import (
	"testing"

	bls12381 "github.com/corestario/kyber/pairing/bls12381"
)

// D16 (C18): a private deal shorter than one curve point (48 bytes) must be refused with an error;
// before the fix ecies.Decrypt sliced ctx[:48] and the airgapped machine panicked.
func TestFindingC18ShortDealIsRefusedWithoutPanic(t *testing.T) {
	suite := bls12381.NewBLS12381Suite(make([]byte, 32))
	am := &Machine{baseSuite: suite}
	am.secKey = suite.Scalar().Pick(suite.RandomStream())
	for _, deal := range [][]byte{nil, {}, []byte("self-confirm"), make([]byte, 47)} {
		func() {
			defer func() {
				if r := recover(); r != nil {
					t.Fatalf("a %d-byte deal makes the machine panic: %v", len(deal), r)
				}
			}()
			if _, err := am.decryptDataFromParticipant(deal); err == nil {
				t.Fatalf("a %d-byte deal was accepted", len(deal))
			}
		}()
	}
}
