package airgapped

import (
	"bytes"
	"encoding/json"
	"os"
	"testing"
	"time"

	client "github.com/lidofinance/dc4bc/client/types"
	"github.com/lidofinance/dc4bc/fsm/state_machines/dkg_proposal_fsm"
	"github.com/lidofinance/dc4bc/fsm/types/requests"
	"github.com/lidofinance/dc4bc/fsm/types/responses"
)

// Known finding D6 (property C04): the dealer's secret polynomial of a round is drawn from a reader seeded with
// the machine's base seed only (InitDKGInstance(am.baseSeed)), so the same machine publishes the same
// commitments - i.e. uses the same secret polynomial - in two rounds with different identifiers.
func TestFindingC04SamePolynomialInTwoRounds(t *testing.T) {
	dir, err := os.MkdirTemp("", "gocv-c04")
	if err != nil {
		t.Fatal(err)
	}
	defer os.RemoveAll(dir)
	var ms []*Machine
	for i := 0; i < 3; i++ {
		am, err := NewMachine(dir + "/db" + string(rune('a'+i)))
		if err != nil {
			t.Fatal(err)
		}
		am.SetEncryptionKey([]byte("password"))
		if err := am.InitKeys(); err != nil {
			t.Fatal(err)
		}
		am.SetResultFolder(dir)
		ms = append(ms, am)
	}
	var entries responses.DKGProposalPubKeysParticipantResponse
	for i, am := range ms {
		pk, err := am.GetPubKey().MarshalBinary()
		if err != nil {
			t.Fatal(err)
		}
		entries = append(entries, &responses.DKGProposalPubKeysParticipantEntry{ParticipantId: i, Username: string(rune('a' + i)), DkgPubKey: pk, Threshold: 2})
	}
	payload, _ := json.Marshal(entries)
	commitsOf := func(round string) []byte {
		op := client.Operation{ID: "op-" + round, Type: client.OperationType(dkg_proposal_fsm.StateDkgCommitsAwaitConfirmations), Payload: payload, DKGIdentifier: round, CreatedAt: time.Now()}
		res, err := ms[0].GetOperationResult(op)
		if err != nil {
			t.Fatal(err)
		}
		var req requests.DKGProposalCommitConfirmationRequest
		if err := json.Unmarshal(res.ResultMsgs[0].Data, &req); err != nil {
			t.Fatal(err)
		}
		return req.Commit
	}
	a, b := commitsOf("round-one"), commitsOf("round-two")
	if bytes.Equal(a, b) {
		t.Fatalf("the same machine published identical commitments (the same secret polynomial) in rounds %q and %q: %.60s...", "round-one", "round-two", a)
	}
}
