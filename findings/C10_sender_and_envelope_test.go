package node

import (
	"context"
	"crypto/ed25519"
	"encoding/json"
	"errors"
	"testing"
	"time"

	"github.com/lidofinance/dc4bc/client/config"
	"github.com/lidofinance/dc4bc/client/modules/keystore"
	"github.com/lidofinance/dc4bc/client/modules/logger"
	"github.com/lidofinance/dc4bc/client/services"
	"github.com/lidofinance/dc4bc/client/services/fsmservice"
	"github.com/lidofinance/dc4bc/client/types"
	"github.com/lidofinance/dc4bc/fsm/state_machines"
	spf "github.com/lidofinance/dc4bc/fsm/state_machines/signature_proposal_fsm"
	"github.com/lidofinance/dc4bc/fsm/types/requests"
	"github.com/lidofinance/dc4bc/storage"
)

// Known findings D3 and D7 (property C10), replayed on the real node service, the real FSM service and
// the real machines; only the key-value store, the key store and the operation pool are in-memory stand-ins.

type memState struct{ kv map[string][]byte }

func (m *memState) Get(k string) ([]byte, error)        { return m.kv[k], nil }
func (m *memState) Set(k string, v []byte) error        { m.kv[k] = append([]byte(nil), v...); return nil }
func (m *memState) Delete(k string) error               { delete(m.kv, k); return nil }
func (m *memState) Reset(string) (string, error)        { return "", nil }
func (m *memState) SaveOffset(uint64) error             { return nil }
func (m *memState) LoadOffset() (uint64, error)         { return 0, nil }
func (m *memState) GetOrError(k string) ([]byte, error) { v, ok := m.kv[k]; if !ok { return nil, errors.New("not found") }; return v, nil }

type memKeys struct{ kp *keystore.KeyPair }

func (m *memKeys) PutKeys(string, *keystore.KeyPair) error          { return nil }
func (m *memKeys) LoadKeys(string, string) (*keystore.KeyPair, error) { return m.kp, nil }

type memOps struct{ ops map[string]*types.Operation }

func (m *memOps) GetOperations() (map[string]*types.Operation, error) { return m.ops, nil }
func (m *memOps) GetOperationByID(id string) (*types.Operation, error) { return m.ops[id], nil }
func (m *memOps) PutOperation(o *types.Operation) error               { m.ops[o.ID] = o; return nil }
func (m *memOps) DeleteOperation(o *types.Operation) error            { delete(m.ops, o.ID); return nil }

type c10Round struct {
	node  NodeService
	fsm   fsmservice.FSMService
	keys  map[string]*keystore.KeyPair
	round string
}

func newC10Round(t *testing.T) *c10Round {
	st := &memState{kv: map[string][]byte{}}
	fsmSvc := fsmservice.NewFSMService(st, nil, "topic")
	sp := services.ServiceProvider{}
	sp.SetLogger(logger.NewLogger("alice"))
	sp.SetState(st)
	sp.SetKeyStore(&memKeys{kp: keystore.NewKeyPair()})
	sp.SetFSMService(fsmSvc)
	sp.SetOperationService(&memOps{ops: map[string]*types.Operation{}})
	n, err := NewNode(context.Background(), &config.Config{Username: "alice", KafkaStorageConfig: &config.KafkaStorageConfig{Topic: "topic"}}, &sp)
	if err != nil {
		t.Fatal(err)
	}
	r := &c10Round{node: n, fsm: fsmSvc, keys: map[string]*keystore.KeyPair{}, round: "round-1"}
	var entries []*requests.SignatureProposalParticipantsEntry
	for _, name := range []string{"alice", "bob", "carol"} {
		kp := keystore.NewKeyPair()
		r.keys[name] = kp
		entries = append(entries, &requests.SignatureProposalParticipantsEntry{Username: name, PubKey: kp.Pub, DkgPubKey: make([]byte, 128)})
	}
	data, _ := json.Marshal(requests.SignatureProposalParticipantsListRequest{Participants: entries, SigningThreshold: 2, CreatedAt: time.Now()})
	if err := n.ProcessMessage(r.signed("alice", string(spf.EventInitProposal), data)); err != nil {
		t.Fatalf("init proposal: %v", err)
	}
	return r
}

func (r *c10Round) signed(sender, event string, data []byte) storage.Message {
	m := storage.Message{ID: "m", DkgRoundID: r.round, Event: event, Data: data, SenderAddr: sender}
	m.Signature = ed25519.Sign(r.keys[sender].Priv, m.Bytes())
	return m
}

func (r *c10Round) dump(t *testing.T) *state_machines.FSMDump {
	inst, err := r.fsm.GetFSMInstance(r.round, false)
	if err != nil {
		t.Fatal(err)
	}
	return inst.FSMDump()
}

func (r *c10Round) idOf(t *testing.T, name string) int {
	id, err := r.dump(t).Payload.GetIDByUsername(name)
	if err != nil {
		t.Fatal(err)
	}
	return id
}

// D3: the participant a request speaks for is taken from the payload; the signer's identity is only used to
// find the verification key. alice confirms the invitation in bob's name with her own valid signature.
func TestFindingC10SenderNotBound(t *testing.T) {
	r := newC10Round(t)
	bob := r.idOf(t, "bob")
	data, _ := json.Marshal(requests.SignatureProposalParticipantRequest{ParticipantId: bob, CreatedAt: time.Now()})
	err := r.node.ProcessMessage(r.signed("alice", string(spf.EventConfirmSignatureProposal), data))
	if st := r.dump(t).Payload.SignatureProposalPayload.Quorum[bob].Status; err == nil && st.String() == "SigConfirmationConfirmed" {
		t.Fatalf("a message signed by alice (and by nobody else) changed bob's record to %v", st)
	}
}

// D7: the signature covers Data only. bob's genuine confirmation, re-posted by anybody under the event name
// of a decline, is accepted with bob's unchanged signature and cancels the round.
func TestFindingC10EnvelopeNotSigned(t *testing.T) {
	r := newC10Round(t)
	bob := r.idOf(t, "bob")
	data, _ := json.Marshal(requests.SignatureProposalParticipantRequest{ParticipantId: bob, CreatedAt: time.Now()})
	genuine := r.signed("bob", string(spf.EventConfirmSignatureProposal), data)
	forged := genuine
	forged.Event = string(spf.EventDeclineProposal) // nothing re-signed
	err := r.node.ProcessMessage(forged)
	state := string(r.dump(t).State)
	if err == nil && state == string(spf.StateValidationCanceledByParticipant) {
		t.Fatalf("bob signed a confirmation; re-posted as %q with the same signature it was accepted and the round is now %s", forged.Event, state)
	}
}
