package node

import (
	"context"
	"crypto/ed25519"
	"encoding/json"
	"errors"
	"testing"
	"time"

	"github.com/lidofinance/dc4bc/client/config"
	"github.com/lidofinance/dc4bc/client/modules/keystore"
	"github.com/lidofinance/dc4bc/client/modules/logger"
	"github.com/lidofinance/dc4bc/client/services"
	"github.com/lidofinance/dc4bc/client/services/fsmservice"
	"github.com/lidofinance/dc4bc/client/types"
	spf "github.com/lidofinance/dc4bc/fsm/state_machines/signature_proposal_fsm"
	"github.com/lidofinance/dc4bc/fsm/types/requests"
	"github.com/lidofinance/dc4bc/storage"
)

// Known finding D8 (property C13): the round's new state is saved inside processMessage, the operation the
// message produced is stored afterwards in ProcessMessage, and the offset is saved after that. A crash between the
// two writes leaves the advanced state without the operation; after the restart the message is handled again
// (the offset was not saved), the machine refuses it because it already advanced, and the operation never exists.

type d8State struct{ kv map[string][]byte }

func (m *d8State) Get(k string) ([]byte, error) { return m.kv[k], nil }
func (m *d8State) Set(k string, v []byte) error { m.kv[k] = append([]byte(nil), v...); return nil }
func (m *d8State) Delete(k string) error        { delete(m.kv, k); return nil }
func (m *d8State) Reset(string) (string, error) { return "", nil }
func (m *d8State) SaveOffset(uint64) error      { return nil }
func (m *d8State) LoadOffset() (uint64, error)  { return 0, nil }
func (m *d8State) GetOrError(k string) ([]byte, error) {
	v, ok := m.kv[k]
	if !ok {
		return nil, errors.New("not found")
	}
	return v, nil
}

type d8Keys struct{ kp *keystore.KeyPair }

func (m *d8Keys) PutKeys(string, *keystore.KeyPair) error           { return nil }
func (m *d8Keys) LoadKeys(string, string) (*keystore.KeyPair, error) { return m.kp, nil }

// the operation pool of a process that dies at its first write
type d8Ops struct {
	ops   map[string]*types.Operation
	crash bool
}

func (m *d8Ops) GetOperations() (map[string]*types.Operation, error)  { return m.ops, nil }
func (m *d8Ops) GetOperationByID(id string) (*types.Operation, error) { return m.ops[id], nil }
func (m *d8Ops) DeleteOperation(o *types.Operation) error             { delete(m.ops, o.ID); return nil }
func (m *d8Ops) PutOperation(o *types.Operation) error {
	if m.crash {
		panic("process killed before the operation was written")
	}
	m.ops[o.ID] = o
	return nil
}

func d8Node(t *testing.T, st *d8State, ops *d8Ops) NodeService {
	sp := services.ServiceProvider{}
	sp.SetLogger(logger.NewLogger("alice"))
	sp.SetState(st)
	sp.SetKeyStore(&d8Keys{kp: keystore.NewKeyPair()})
	sp.SetFSMService(fsmservice.NewFSMService(st, nil, "topic"))
	sp.SetOperationService(ops)
	n, err := NewNode(context.Background(), &config.Config{Username: "alice", KafkaStorageConfig: &config.KafkaStorageConfig{Topic: "topic"}}, &sp)
	if err != nil {
		t.Fatal(err)
	}
	return n
}

func TestFindingC13CrashBetweenStateAndOperation(t *testing.T) {
	st := &d8State{kv: map[string][]byte{}}
	var entries []*requests.SignatureProposalParticipantsEntry
	keys := map[string]*keystore.KeyPair{}
	for _, name := range []string{"alice", "bob"} {
		keys[name] = keystore.NewKeyPair()
		entries = append(entries, &requests.SignatureProposalParticipantsEntry{Username: name, PubKey: keys[name].Pub, DkgPubKey: make([]byte, 128)})
	}
	data, _ := json.Marshal(requests.SignatureProposalParticipantsListRequest{Participants: entries, SigningThreshold: 2, CreatedAt: time.Now()})
	msg := storage.Message{ID: "m0", DkgRoundID: "round-1", Offset: 0, Event: string(spf.EventInitProposal), Data: data, SenderAddr: "alice"}
	msg.Signature = ed25519.Sign(keys["alice"].Priv, msg.Bytes())

	// first life of the process: killed while storing the operation (the round state is already saved)
	func() {
		defer func() { _ = recover() }()
		_ = d8Node(t, st, &d8Ops{ops: map[string]*types.Operation{}, crash: true}).ProcessMessage(msg)
	}()

	// restart on the same state directory: the offset was never saved, so the same message is handled again
	pool := &d8Ops{ops: map[string]*types.Operation{}}
	err := d8Node(t, st, pool).ProcessMessage(msg)
	if len(pool.ops) == 0 {
		t.Fatalf("after the restart the invitation is no longer offered as an operation (re-handling the message: %v)", err)
	}
}
