package node

import (
	"context"
	"errors"
	"testing"

	"github.com/lidofinance/dc4bc/client/config"
	"github.com/lidofinance/dc4bc/client/modules/keystore"
	"github.com/lidofinance/dc4bc/client/modules/logger"
	"github.com/lidofinance/dc4bc/client/services"
	"github.com/lidofinance/dc4bc/client/services/fsmservice"
	"github.com/lidofinance/dc4bc/client/types"
	"github.com/lidofinance/dc4bc/storage"
)

// D18 (C18): processMessage fetched the round with createIfMissing=true before it verified anything, and
// GetFSMInstance stored the empty round at once. A refused message that names a round identifier the node has never
// seen (anybody can post one) therefore left an idle round in the node's state store for good: rejected input
// changed durable state. Repaired: the new round is created in memory and stored by the first accepted message.

type d18State struct{ kv map[string][]byte; sets int }

func (m *d18State) Get(k string) ([]byte, error) { return m.kv[k], nil }
func (m *d18State) Set(k string, v []byte) error {
	m.sets++
	m.kv[k] = append([]byte(nil), v...)
	return nil
}
func (m *d18State) Delete(k string) error        { delete(m.kv, k); return nil }
func (m *d18State) Reset(string) (string, error) { return "", nil }
func (m *d18State) SaveOffset(uint64) error      { return nil }
func (m *d18State) LoadOffset() (uint64, error)  { return 0, nil }
func (m *d18State) GetOrError(k string) ([]byte, error) {
	v, ok := m.kv[k]
	if !ok {
		return nil, errors.New("not found")
	}
	return v, nil
}

type d18Keys struct{ kp *keystore.KeyPair }

func (m *d18Keys) PutKeys(string, *keystore.KeyPair) error           { return nil }
func (m *d18Keys) LoadKeys(string, string) (*keystore.KeyPair, error) { return m.kp, nil }

type d18Ops struct{ ops map[string]*types.Operation }

func (m *d18Ops) GetOperations() (map[string]*types.Operation, error)  { return m.ops, nil }
func (m *d18Ops) GetOperationByID(id string) (*types.Operation, error) { return m.ops[id], nil }
func (m *d18Ops) DeleteOperation(o *types.Operation) error             { delete(m.ops, o.ID); return nil }
func (m *d18Ops) PutOperation(o *types.Operation) error                { m.ops[o.ID] = o; return nil }

func TestFindingC18RefusedMessageForUnknownRoundLeavesNoTrace(t *testing.T) {
	st := &d18State{kv: map[string][]byte{}}
	sp := services.ServiceProvider{}
	sp.SetLogger(logger.NewLogger("alice"))
	sp.SetState(st)
	sp.SetKeyStore(&d18Keys{kp: keystore.NewKeyPair()})
	fsmSvc := fsmservice.NewFSMService(st, nil, "topic")
	sp.SetFSMService(fsmSvc)
	sp.SetOperationService(&d18Ops{ops: map[string]*types.Operation{}})
	n, err := NewNode(context.Background(), &config.Config{Username: "alice", KafkaStorageConfig: &config.KafkaStorageConfig{Topic: "topic"}}, &sp)
	if err != nil {
		t.Fatal(err)
	}
	for _, msg := range []storage.Message{
		// junk in the name of nobody, for a round that does not exist
		{ID: "j1", DkgRoundID: "no-such-round-1", Event: "event_dkg_commit_confirm_received", Data: []byte(`{}`), SenderAddr: "mallory", Signature: make([]byte, 64)},
		// an opening proposal that its validator refuses
		{ID: "j2", DkgRoundID: "no-such-round-2", Event: "event_sig_proposal_init", Data: []byte(`{"Participants":[],"SigningThreshold":0}`), SenderAddr: "mallory"},
		// bytes that are no JSON at all
		{ID: "j3", DkgRoundID: "no-such-round-3", Event: "event_sig_proposal_init", Data: []byte(`\x00\x01`), SenderAddr: "mallory"},
	} {
		before := st.sets
		if err := n.ProcessMessage(msg); err == nil {
			t.Fatalf("message %s was not refused", msg.ID)
		}
		if st.sets != before {
			t.Errorf("refused message %s (%s) wrote to the state store %d time(s)", msg.ID, msg.Event, st.sets-before)
		}
		if ok, _ := fsmSvc.IsExist(msg.DkgRoundID); ok {
			t.Errorf("refused message %s left a stored round %q behind", msg.ID, msg.DkgRoundID)
		}
	}
}
