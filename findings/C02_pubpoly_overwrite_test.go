package state_machines

import (
	"bytes"
	"testing"
	"time"

	"github.com/lidofinance/dc4bc/fsm/fsm"
	dpf "github.com/lidofinance/dc4bc/fsm/state_machines/dkg_proposal_fsm"
	"github.com/lidofinance/dc4bc/fsm/state_machines/internal"
	"github.com/lidofinance/dc4bc/fsm/types/requests"
)

// Defect D5 (property C02): every key announcement overwrites the round's public polynomial unchecked. Two
// participants announce the same group key; the second one attaches a different polynomial. The round still
// becomes "master key collected" and every hot node keeps the second polynomial for reconstruction.
func TestGocvC02PubPolyOverwrite(t *testing.T) {
	now := time.Now()
	quorum := internal.DKGProposalQuorum{}
	for id, name := range []string{"alice", "bob"} {
		quorum[id] = &internal.DKGProposalParticipant{ParticipantID: id, Username: name, Status: internal.MasterKeyAwaitConfirmation, UpdatedAt: now}
	}
	dump := &FSMDump{TransactionId: "round", State: dpf.StateDkgMasterKeyAwaitConfirmations, Payload: &internal.DumpedMachineStatePayload{
		DkgId: "round", Threshold: 2,
		DKGProposalPayload: &internal.DKGConfirmation{Quorum: quorum, CreatedAt: now, UpdatedAt: now, ExpiresAt: now.Add(time.Hour)},
	}}
	bz, err := dump.Marshal()
	if err != nil {
		t.Fatal(err)
	}
	key := []byte("the-same-group-key")
	honest, other := []byte("polynomial-A"), []byte("polynomial-B")
	var resp *fsm.Response
	for id, poly := range [][]byte{honest, other} {
		inst, err := FromDump(bz)
		if err != nil {
			t.Fatal(err)
		}
		resp, bz, err = inst.Do(dpf.EventDKGMasterKeyConfirmationReceived, requests.DKGProposalMasterKeyConfirmationRequest{ParticipantId: id, MasterKey: key, PubPolyBz: poly, CreatedAt: now})
		if err != nil {
			return // the differing announcement was refused: nothing wrong is retained
		}
	}
	inst, err := FromDump(bz)
	if err != nil {
		t.Fatal(err)
	}
	kept := inst.FSMDump().Payload.DKGProposalPayload.PubPolyBz
	if resp.State == dpf.StateDkgMasterKeyCollected && !bytes.Equal(kept, honest) {
		t.Fatalf("round reached %s although two different public polynomials were announced; the node keeps %q, the first announcement was %q", resp.State, kept, honest)
	}
}
