package node

import (
	"context"
	"encoding/json"
	"errors"
	"testing"
	"time"

	"github.com/lidofinance/dc4bc/client/api/dto"
	"github.com/lidofinance/dc4bc/client/config"
	"github.com/lidofinance/dc4bc/client/modules/keystore"
	"github.com/lidofinance/dc4bc/client/modules/logger"
	"github.com/lidofinance/dc4bc/client/services"
	"github.com/lidofinance/dc4bc/client/services/fsmservice"
	"github.com/lidofinance/dc4bc/client/types"
	spf "github.com/lidofinance/dc4bc/fsm/state_machines/signature_proposal_fsm"
	"github.com/lidofinance/dc4bc/fsm/types/requests"
	"github.com/lidofinance/dc4bc/storage"
)

// D19 (C09, C10): a reinitialisation message is exempt from the signature check and switches the check off while it
// replays the messages it carries. reinitDKG only required the round named INSIDE the payload (dkg_id) to be unknown:
//  (a) it replayed every carried message, whatever round that message named - so an unsigned message of anybody,
//      wrapped into a reinitialisation for a fresh id, changed an existing round (here: declines in alice's name);
//  (b) it stored the rebuilt round under the round id of the ENVELOPE, not under dkg_id - so a reinitialisation for a
//      fresh dkg_id posted with the envelope id of an existing round replaced that round's state and keys.
// Repaired: only messages of the named round are replayed, and the round is stored under the id it was checked for.

type d19State struct{ kv map[string][]byte }

func (m *d19State) Get(k string) ([]byte, error) { return m.kv[k], nil }
func (m *d19State) Set(k string, v []byte) error { m.kv[k] = append([]byte(nil), v...); return nil }
func (m *d19State) Delete(k string) error        { delete(m.kv, k); return nil }
func (m *d19State) Reset(string) (string, error) { return "", nil }
func (m *d19State) SaveOffset(uint64) error      { return nil }
func (m *d19State) LoadOffset() (uint64, error)  { return 0, nil }
func (m *d19State) GetOrError(k string) ([]byte, error) {
	v, ok := m.kv[k]
	if !ok {
		return nil, errors.New("not found")
	}
	return v, nil
}

type d19Keys struct{ kp *keystore.KeyPair }

func (m *d19Keys) PutKeys(string, *keystore.KeyPair) error           { return nil }
func (m *d19Keys) LoadKeys(string, string) (*keystore.KeyPair, error) { return m.kp, nil }

type d19Ops struct{ ops map[string]*types.Operation }

func (m *d19Ops) GetOperations() (map[string]*types.Operation, error)  { return m.ops, nil }
func (m *d19Ops) GetOperationByID(id string) (*types.Operation, error) { return m.ops[id], nil }
func (m *d19Ops) DeleteOperation(o *types.Operation) error             { delete(m.ops, o.ID); return nil }
func (m *d19Ops) PutOperation(o *types.Operation) error                { m.ops[o.ID] = o; return nil }

func d19Setup(t *testing.T) (NodeService, fsmservice.FSMService, map[string]*keystore.KeyPair) {
	st := &d19State{kv: map[string][]byte{}}
	sp := services.ServiceProvider{}
	sp.SetLogger(logger.NewLogger("carol"))
	sp.SetState(st)
	sp.SetKeyStore(&d19Keys{kp: keystore.NewKeyPair()})
	fsmSvc := fsmservice.NewFSMService(st, nil, "topic")
	sp.SetFSMService(fsmSvc)
	sp.SetOperationService(&d19Ops{ops: map[string]*types.Operation{}})
	n, err := NewNode(context.Background(), &config.Config{Username: "carol", KafkaStorageConfig: &config.KafkaStorageConfig{Topic: "topic"}}, &sp)
	if err != nil {
		t.Fatal(err)
	}
	keys := map[string]*keystore.KeyPair{}
	var entries []*requests.SignatureProposalParticipantsEntry
	for _, name := range []string{"alice", "bob", "carol"} {
		keys[name] = keystore.NewKeyPair()
		entries = append(entries, &requests.SignatureProposalParticipantsEntry{Username: name, PubKey: keys[name].Pub, DkgPubKey: make([]byte, 128)})
	}
	data, _ := json.Marshal(requests.SignatureProposalParticipantsListRequest{Participants: entries, SigningThreshold: 2, CreatedAt: time.Now()})
	if err := n.ProcessMessage(storage.Message{ID: "m0", DkgRoundID: "A", Event: string(spf.EventInitProposal), Data: data, SenderAddr: "alice"}); err != nil {
		t.Fatalf("opening round A: %v", err)
	}
	return n, fsmSvc, keys
}

func d19Dump(t *testing.T, f fsmservice.FSMService, id string) string {
	d, err := f.GetFSMDump(&dto.DkgIdDTO{DkgID: id})
	if err != nil {
		t.Fatalf("round %s: %v", id, err)
	}
	bz, _ := json.Marshal(d)
	return string(bz)
}

func TestFindingC09ReinitCarriesUnsignedMessagesIntoAnExistingRound(t *testing.T) {
	n, fsmSvc, _ := d19Setup(t)
	before := d19Dump(t, fsmSvc, "A")
	decline, _ := json.Marshal(requests.SignatureProposalParticipantRequest{ParticipantId: 0, CreatedAt: time.Now()})
	payload, _ := json.Marshal(types.ReDKG{DKGID: "fresh", Threshold: 2, Messages: []storage.Message{
		{ID: "x", DkgRoundID: "A", Event: string(spf.EventDeclineProposal), Data: decline, SenderAddr: "nobody"}}})
	_ = n.ProcessMessage(storage.Message{ID: "r1", DkgRoundID: "fresh", Event: string(types.ReinitDKG), Data: payload, SenderAddr: "nobody"})
	if after := d19Dump(t, fsmSvc, "A"); after != before {
		t.Fatalf("an unsigned message wrapped into a reinitialisation for another id changed the existing round A:\nbefore %s\nafter  %s", before, after)
	}
}

func TestFindingC09ReinitOverwritesTheRoundNamedInItsEnvelope(t *testing.T) {
	n, fsmSvc, _ := d19Setup(t)
	before := d19Dump(t, fsmSvc, "A")
	payload, _ := json.Marshal(types.ReDKG{DKGID: "fresh2", Threshold: 2,
		Participants: []types.Participant{{Name: "alice", NewCommPubKey: keystore.NewKeyPair().Pub}}})
	_ = n.ProcessMessage(storage.Message{ID: "r2", DkgRoundID: "A", Event: string(types.ReinitDKG), Data: payload, SenderAddr: "nobody"})
	if after := d19Dump(t, fsmSvc, "A"); after != before {
		t.Fatalf("an unsigned reinitialisation for the id fresh2, posted under the envelope id A, replaced the stored round A:\nbefore %s\nafter  %s", before, after)
	}
}
