// copy to pkg/utils/zz_findings_test.go ; run: go test -vet=off -count=1 -run TestFinding ./pkg/utils/
package utils

import (
	"os"
	"path/filepath"
	"testing"
)

// ReadLogMessages decodes every line into ONE shared storage.Message variable. encoding/json leaves a field
// untouched when its key is absent from the input, so a line that omits a key silently inherits the value of the
// previous line. Here a broadcast line written without the "recipient" key (other producers / older writers do
// that; the Go struct has no omitempty, but nothing forces a dump to come from this struct) becomes a private
// message to bob, and inherits his signature too. Every node other than bob then skips it during the replay.
func TestFindingReadLogMessagesCarriesFieldsOver(t *testing.T) {
	dir := t.TempDir()
	path := filepath.Join(dir, "dump.csv")
	content := `{"id":"1","dkg_round_id":"R","offset":7,"event":"event_dkg_deal_confirm_received","data":"AQ==","signature":"AgM=","sender":"alice","recipient":"bob"}` + "\n" +
		`{"id":"2","dkg_round_id":"R","event":"event_dkg_response_confirm_received","data":"BA==","sender":"carol"}` + "\n"
	if err := os.WriteFile(path, []byte(content), 0600); err != nil {
		t.Fatal(err)
	}
	msgs, err := ReadLogMessages(path, ';', false, 0)
	if err != nil {
		t.Fatal(err)
	}
	if len(msgs) != 2 {
		t.Fatalf("expected 2 messages, got %d", len(msgs))
	}
	if msgs[1].RecipientAddr != "" {
		t.Errorf("second line has no recipient, but was read with recipient %q (inherited from the line before)", msgs[1].RecipientAddr)
	}
	if len(msgs[1].Signature) != 0 {
		t.Errorf("second line has no signature, but was read with signature %x (inherited from the line before)", msgs[1].Signature)
	}
	if msgs[1].Offset != 0 {
		t.Errorf("second line has no offset, but was read with offset %d (inherited from the line before)", msgs[1].Offset)
	}
}
