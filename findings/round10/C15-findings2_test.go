// copy to airgapped/zz_findings_test.go ; run: go test -vet=off -count=1 -run TestFinding ./airgapped/
package airgapped

import (
	"encoding/json"
	"io/ioutil"
	"path/filepath"
	"testing"
	"time"

	client "github.com/lidofinance/dc4bc/client/types"
	"github.com/lidofinance/dc4bc/fsm/state_machines/dkg_proposal_fsm"
	"github.com/lidofinance/dc4bc/fsm/types/responses"
)

// F5. Machine.ProcessOperation opens the result file with O_WRONLY|O_CREATE but without O_TRUNC, and the
// file name depends only on the operation (round, step, id). When the same operation is processed a second
// time (the operator scans / loads the request again) the machine answers with the much shorter
// "dkg instance already exists" error result, which is written over the head of the first, longer file:
// what is left on disk is the new JSON followed by the tail of the old one, which is not the result the
// machine produced (and not valid JSON).
func TestFindingResultFileNotTruncated(t *testing.T) {
	am, err := NewMachine(filepath.Join(t.TempDir(), "db"))
	if err != nil {
		t.Fatalf("NewMachine: %v", err)
	}
	am.SetEncryptionKey([]byte("findings"))
	if err := am.InitKeys(); err != nil {
		t.Fatalf("InitKeys: %v", err)
	}
	am.SetResultFolder(t.TempDir())

	myKey, err := am.GetPubKey().MarshalBinary()
	if err != nil {
		t.Fatalf("marshal key: %v", err)
	}
	// a 6-party round with threshold 6: the commits answer is long; the other keys are any valid points
	const n = 6
	var payload responses.DKGProposalPubKeysParticipantResponse
	payload = append(payload, &responses.DKGProposalPubKeysParticipantEntry{ParticipantId: 0, Username: "user0", DkgPubKey: myKey, Threshold: n})
	for i := 1; i < n; i++ {
		p := am.baseSuite.Point().Mul(am.baseSuite.Scalar().SetInt64(int64(i+1)), nil)
		bz, err := p.MarshalBinary()
		if err != nil {
			t.Fatalf("marshal point: %v", err)
		}
		payload = append(payload, &responses.DKGProposalPubKeysParticipantEntry{
			ParticipantId: i, Username: "user" + string(rune('0'+i)), DkgPubKey: bz, Threshold: n})
	}
	payloadBz, _ := json.Marshal(payload)
	op := client.NewOperation("0123456789abcdef0123456789abcdef", payloadBz, dkg_proposal_fsm.StateDkgCommitsAwaitConfirmations)
	op.CreatedAt = time.Now()

	readBack := func(path string) (client.Operation, []byte, error) {
		bz, err := ioutil.ReadFile(path)
		if err != nil {
			t.Fatalf("read %s: %v", path, err)
		}
		var res client.Operation
		return res, bz, json.Unmarshal(bz, &res)
	}

	path1, err := am.ProcessOperation(*op, true)
	if err != nil {
		t.Fatalf("first ProcessOperation: %v", err)
	}
	_, first, err := readBack(path1)
	if err != nil {
		t.Fatalf("first result file does not parse: %v", err)
	}

	path2, err := am.ProcessOperation(*op, false)
	if err != nil {
		t.Fatalf("second ProcessOperation: %v", err)
	}
	if path1 != path2 {
		t.Fatalf("expected the same result path, got %s and %s", path1, path2)
	}
	want, err := am.GetOperationResult(*op) // what the machine answers now (deterministic error result)
	if err != nil {
		t.Fatalf("GetOperationResult: %v", err)
	}
	wantBz, _ := json.Marshal(want)

	_, second, err := readBack(path2)
	if err != nil {
		t.Errorf("result file of the second run is not valid JSON (%d bytes on disk, first result %d bytes, second result %d bytes): %v",
			len(second), len(first), len(wantBz), err)
	}
	if string(second) != string(wantBz) {
		t.Errorf("result file differs from the result the machine produced: %d bytes on disk, %d bytes produced; tail left over from the first run: %d bytes",
			len(second), len(wantBz), len(second)-len(wantBz))
	}
}
