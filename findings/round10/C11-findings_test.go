// copy to airgapped/zz_findings_test.go ; run: go test -vet=off -count=1 -run TestFinding ./airgapped/
package airgapped

import (
	"crypto/aes"
	"crypto/cipher"
	"encoding/json"
	"fmt"
	"path/filepath"
	"runtime/debug"
	"testing"
	"time"

	"github.com/corestario/kyber"
	"github.com/corestario/kyber/encrypt/ecies"
	"github.com/corestario/kyber/share"
	dkgPedersen "github.com/corestario/kyber/share/dkg/pedersen"
	vssPedersen "github.com/corestario/kyber/share/vss/pedersen"
	"github.com/corestario/kyber/sign/schnorr"
	"go.dedis.ch/protobuf"
	"golang.org/x/crypto/hkdf"

	client "github.com/lidofinance/dc4bc/client/types"
	"github.com/lidofinance/dc4bc/fsm/state_machines/dkg_proposal_fsm"
	"github.com/lidofinance/dc4bc/fsm/types/requests"
	"github.com/lidofinance/dc4bc/fsm/types/responses"
)

const zzRound = "zz_round"

type zzNet struct {
	t        *testing.T
	n, thr   int
	machines []*Machine
	names    []string
	commits  []requests.DKGProposalCommitConfirmationRequest
	// deals[to][from] = encrypted request payload
	deals [][]requests.DKGProposalDealConfirmationRequest
	resps []requests.DKGProposalResponseConfirmationRequest
}

func zzNewNet(t *testing.T, n, thr int) *zzNet {
	net := &zzNet{t: t, n: n, thr: thr}
	dir := t.TempDir()
	for i := 0; i < n; i++ {
		am, err := NewMachine(filepath.Join(dir, fmt.Sprintf("db-%d", i)))
		if err != nil {
			t.Fatalf("NewMachine: %v", err)
		}
		am.SetEncryptionKey([]byte(fmt.Sprintf("key-%d", i)))
		if err := am.InitKeys(); err != nil {
			t.Fatalf("InitKeys: %v", err)
		}
		am.SetResultFolder(dir)
		net.machines = append(net.machines, am)
		net.names = append(net.names, fmt.Sprintf("Participant#%d", i))
	}
	net.deals = make([][]requests.DKGProposalDealConfirmationRequest, n)
	return net
}

func (net *zzNet) op(opType string, payload interface{}) client.Operation {
	bz, err := json.Marshal(payload)
	if err != nil {
		net.t.Fatalf("marshal: %v", err)
	}
	return client.Operation{
		ID:            fmt.Sprintf("op-%s-%d", opType, time.Now().UnixNano()),
		Type:          client.OperationType(opType),
		Payload:       bz,
		CreatedAt:     time.Now(),
		DKGIdentifier: zzRound,
	}
}

// run executes an operation on machine i; a panic of the machine is returned as an error
func (net *zzNet) run(i int, o client.Operation) (res client.Operation, err error) {
	defer func() {
		if r := recover(); r != nil {
			err = fmt.Errorf("airgapped machine PANICKED: %v\n%s", r, debug.Stack())
		}
	}()
	res, err = net.machines[i].GetOperationResult(o)
	if err == nil {
		if e := net.machines[i].storeOperation(res); e != nil {
			return res, e
		}
	}
	return res, err
}

func (net *zzNet) commitsStep() {
	var payload responses.DKGProposalPubKeysParticipantResponse
	for i, am := range net.machines {
		pk, _ := am.pubKey.MarshalBinary()
		payload = append(payload, &responses.DKGProposalPubKeysParticipantEntry{
			ParticipantId: i, Username: net.names[i], DkgPubKey: pk, Threshold: net.thr,
		})
	}
	for i := range net.machines {
		res, err := net.run(i, net.op(string(dkg_proposal_fsm.StateDkgCommitsAwaitConfirmations), payload))
		if err != nil || res.Event != dkg_proposal_fsm.EventDKGCommitConfirmationReceived {
			net.t.Fatalf("commits step on %d: %v / %s", i, err, res.Event)
		}
		var req requests.DKGProposalCommitConfirmationRequest
		if err := json.Unmarshal(res.ResultMsgs[0].Data, &req); err != nil {
			net.t.Fatal(err)
		}
		net.commits = append(net.commits, req)
	}
}

func (net *zzNet) dealsStep() {
	var payload responses.DKGProposalCommitParticipantResponse
	for _, c := range net.commits {
		payload = append(payload, &responses.DKGProposalCommitParticipantEntry{
			ParticipantId: c.ParticipantId, Username: net.names[c.ParticipantId], DkgCommit: c.Commit,
		})
	}
	for i := range net.machines {
		res, err := net.run(i, net.op(string(dkg_proposal_fsm.StateDkgDealsAwaitConfirmations), payload))
		if err != nil || res.Event != dkg_proposal_fsm.EventDKGDealConfirmationReceived {
			net.t.Fatalf("deals step on %d: %v / %s", i, err, res.Event)
		}
		for _, m := range res.ResultMsgs {
			var req requests.DKGProposalDealConfirmationRequest
			if err := json.Unmarshal(m.Data, &req); err != nil {
				net.t.Fatal(err)
			}
			for to, name := range net.names {
				if name == m.RecipientAddr {
					net.deals[to] = append(net.deals[to], req)
				}
			}
		}
	}
}

func (net *zzNet) responsesOn(i int) (client.Operation, error) {
	var payload responses.DKGProposalDealParticipantResponse
	for _, d := range net.deals[i] {
		payload = append(payload, &responses.DKGProposalDealParticipantEntry{
			ParticipantId: d.ParticipantId, Username: net.names[d.ParticipantId], DkgDeal: d.Deal,
		})
	}
	res, err := net.run(i, net.op(string(dkg_proposal_fsm.StateDkgResponsesAwaitConfirmations), payload))
	if err == nil && res.Event == dkg_proposal_fsm.EventDKGResponseConfirmationReceived {
		var req requests.DKGProposalResponseConfirmationRequest
		if err := json.Unmarshal(res.ResultMsgs[0].Data, &req); err != nil {
			net.t.Fatal(err)
		}
		net.resps = append(net.resps, req)
	}
	return res, err
}

func (net *zzNet) masterKeyOn(i int) (client.Operation, error) {
	var payload responses.DKGProposalResponseParticipantResponse
	for _, r := range net.resps {
		payload = append(payload, &responses.DKGProposalResponseParticipantEntry{
			ParticipantId: r.ParticipantId, Username: net.names[r.ParticipantId], DkgResponse: r.Response,
		})
	}
	return net.run(i, net.op(string(dkg_proposal_fsm.StateDkgMasterKeyAwaitConfirmations), payload))
}

// openDeal returns the (outer) DKG deal which `from` sent to `to`
func (net *zzNet) openDeal(from, to int) (int, *dkgPedersen.Deal) {
	for idx, d := range net.deals[to] {
		if d.ParticipantId != from || string(d.Deal) == "self-confirm" {
			continue
		}
		bz, err := ecies.Decrypt(net.machines[to].baseSuite, net.machines[to].secKey, d.Deal, net.machines[to].baseSuite.Hash)
		if err != nil {
			net.t.Fatalf("decrypt: %v", err)
		}
		var deal dkgPedersen.Deal
		if err := json.Unmarshal(bz, &deal); err != nil {
			net.t.Fatal(err)
		}
		return idx, &deal
	}
	net.t.Fatalf("no deal %d->%d", from, to)
	return 0, nil
}

// putDeal lets the (malicious) dealer `from` sign and encrypt the outer deal for `to`
func (net *zzNet) putDeal(idx, from, to int, deal *dkgPedersen.Deal) {
	suite := net.machines[from].baseSuite
	buff, _ := deal.MarshalBinary()
	sig, err := schnorr.Sign(suite, net.machines[from].secKey, buff)
	if err != nil {
		net.t.Fatal(err)
	}
	deal.Signature = sig
	bz, _ := json.Marshal(deal)
	enc, err := ecies.Encrypt(net.machines[from].baseSuite, net.machines[to].pubKey, bz, net.machines[from].baseSuite.Hash)
	if err != nil {
		net.t.Fatal(err)
	}
	net.deals[to][idx].Deal = enc
}

// sealInner lets the dealer `from` encrypt an arbitrary inner VSS deal (already protobuf encoded) for `to`,
// exactly as vss.Dealer.EncryptedDeal does
func (net *zzNet) sealInner(from, to int, plain []byte) *vssPedersen.EncryptedDeal {
	suite := net.machines[from].baseSuite
	dhSecret := suite.Scalar().Pick(suite.RandomStream())
	dhPublic := suite.Point().Mul(dhSecret, nil)
	dhBz, _ := dhPublic.MarshalBinary()
	sig, err := schnorr.Sign(suite, net.machines[from].secKey, dhBz)
	if err != nil {
		net.t.Fatal(err)
	}
	h := suite.Hash()
	_, _ = h.Write([]byte("vss-dealer"))
	_, _ = net.machines[from].pubKey.MarshalTo(h)
	_, _ = h.Write([]byte("vss-verifiers"))
	for _, m := range net.machines {
		_, _ = m.pubKey.MarshalTo(h)
	}
	ctx := h.Sum(nil)
	pre := suite.Point().Mul(dhSecret, net.machines[to].pubKey)
	preBz, _ := pre.MarshalBinary()
	key := make([]byte, 32)
	if _, err := hkdf.New(suite.Hash, preBz, nil, ctx).Read(key); err != nil {
		net.t.Fatal(err)
	}
	block, _ := aes.NewCipher(key)
	gcm, _ := cipher.NewGCM(block)
	nonce := make([]byte, gcm.NonceSize())
	return &vssPedersen.EncryptedDeal{DHKey: dhBz, Signature: sig, Nonce: nonce, Cipher: gcm.Seal(nil, nonce, plain, ctx)}
}

func (net *zzNet) expectRefusal(victim int, res client.Operation, err error) {
	if err != nil {
		net.t.Fatalf("the victim produced no error report: %v", err)
	}
	if res.Event != dkg_proposal_fsm.EventDKGResponseConfirmationError {
		net.t.Fatalf("the victim answered %q instead of %q", res.Event, dkg_proposal_fsm.EventDKGResponseConfirmationError)
	}
	if _, e := net.machines[victim].loadBLSKeyring(zzRound); e == nil {
		net.t.Fatalf("a key share was stored")
	}
}

// a deal whose AEAD nonce has the wrong length: Go's GCM panics instead of returning an error
func TestFindingDealWithShortNonceCrashesTheVictim(t *testing.T) {
	net := zzNewNet(t, 3, 2)
	net.commitsStep()
	net.dealsStep()
	idx, deal := net.openDeal(2, 0)
	deal.Deal.Nonce = deal.Deal.Nonce[:4]
	net.putDeal(idx, 2, 0, deal)
	res, err := net.responsesOn(0)
	net.expectRefusal(0, res, err)
}

// a well-encrypted inner deal without the share field
func TestFindingDealWithoutShareCrashesTheVictim(t *testing.T) {
	net := zzNewNet(t, 3, 2)
	net.commitsStep()
	net.dealsStep()
	idx, deal := net.openDeal(2, 0)
	// sanity: the honest inner deal, re-encrypted by our own sealInner, is accepted
	type innerNoShare struct {
		SessionID   []byte
		SecShare    *share.PriShare
		T           uint32
		Commitments []kyber.Point
	}
	plain, err := protobuf.Encode(&innerNoShare{SessionID: []byte("x"), T: 2})
	if err != nil {
		t.Fatal(err)
	}
	deal.Deal = net.sealInner(2, 0, plain)
	net.putDeal(idx, 2, 0, deal)
	res, err := net.responsesOn(0)
	net.expectRefusal(0, res, err)
}

var _ = aes.NewCipher
var _ cipher.AEAD
var _ = hkdf.New
var _ = protobuf.Encode
var _ kyber.Point
var _ *share.PriShare
var _ *vssPedersen.Deal
