// copy to client/services/node/zz_findings_test.go ; run: go test -vet=off -count=1 -run TestFinding ./client/services/node/
package node

import (
	"context"
	"crypto/ed25519"
	"encoding/json"
	"errors"
	"fmt"
	"path/filepath"
	"sync"
	"testing"
	"time"

	"github.com/google/uuid"

	"github.com/lidofinance/dc4bc/client/api/dto"
	"github.com/lidofinance/dc4bc/client/config"
	"github.com/lidofinance/dc4bc/client/modules/keystore"
	"github.com/lidofinance/dc4bc/client/modules/logger"
	"github.com/lidofinance/dc4bc/client/modules/state"
	oprepo "github.com/lidofinance/dc4bc/client/repositories/operation"
	"github.com/lidofinance/dc4bc/client/services"
	"github.com/lidofinance/dc4bc/client/services/fsmservice"
	opservice "github.com/lidofinance/dc4bc/client/services/operation"
	"github.com/lidofinance/dc4bc/client/types"
	dpf "github.com/lidofinance/dc4bc/fsm/state_machines/dkg_proposal_fsm"
	spf "github.com/lidofinance/dc4bc/fsm/state_machines/signature_proposal_fsm"
	"github.com/lidofinance/dc4bc/fsm/types/requests"
	"github.com/lidofinance/dc4bc/storage"
)

// ---------------------------------------------------------------- harness

// fBoard is an in-memory append-only board. beforeSend, if set, runs at the start of every Send
// (outside the lock) and may return an error to refuse the whole call atomically.
type fBoard struct {
	mu         sync.Mutex
	msgs       []storage.Message
	beforeSend func(batch []storage.Message) error
}

func (b *fBoard) Send(messages ...storage.Message) error {
	if b.beforeSend != nil {
		if err := b.beforeSend(messages); err != nil {
			return err
		}
	}
	b.mu.Lock()
	defer b.mu.Unlock()
	for _, m := range messages {
		m.Offset = uint64(len(b.msgs))
		b.msgs = append(b.msgs, m)
	}
	return nil
}
func (b *fBoard) GetMessages(offset uint64) ([]storage.Message, error) {
	b.mu.Lock()
	defer b.mu.Unlock()
	if offset >= uint64(len(b.msgs)) {
		return nil, nil
	}
	return append([]storage.Message(nil), b.msgs[offset:]...), nil
}
func (b *fBoard) Close() error                                 { return nil }
func (b *fBoard) IgnoreMessages(_ []string, _ bool) error      { return nil }
func (b *fBoard) UnignoreMessages()                            {}
func (b *fBoard) all() []storage.Message                       { m, _ := b.GetMessages(0); return m }

type fEnv struct {
	t       *testing.T
	node    *BaseNodeService
	board   *fBoard
	ops     opservice.OperationService
	fsms    fsmservice.FSMService
	me      string
	myKeys  *keystore.KeyPair
	other   string
	othKeys *keystore.KeyPair
}

func newFEnv(t *testing.T) *fEnv {
	t.Helper()
	dir := t.TempDir()
	const topic = "topic"
	me := "myself"

	st, err := state.NewLevelDBState(filepath.Join(dir, "state"), topic)
	if err != nil {
		t.Fatalf("state: %v", err)
	}
	ks, err := keystore.NewLevelDBKeyStore(me, filepath.Join(dir, "keys"))
	if err != nil {
		t.Fatalf("keystore: %v", err)
	}
	myKeys := keystore.NewKeyPair()
	if err := ks.PutKeys(me, myKeys); err != nil {
		t.Fatalf("put keys: %v", err)
	}
	board := &fBoard{}
	repo, err := oprepo.NewOperationRepo(st, topic)
	if err != nil {
		t.Fatalf("op repo: %v", err)
	}
	ops := opservice.NewOperationService(repo)
	fsms := fsmservice.NewFSMService(st, board, topic)

	sp := services.ServiceProvider{}
	sp.SetLogger(logger.NewLogger(me))
	sp.SetState(st)
	sp.SetKeyStore(ks)
	sp.SetStorage(board)
	sp.SetFSMService(fsms)
	sp.SetOperationService(ops)

	cfg := config.Config{Username: me, KafkaStorageConfig: &config.KafkaStorageConfig{Topic: topic}}
	n, err := NewNode(context.Background(), &cfg, &sp)
	if err != nil {
		t.Fatalf("node: %v", err)
	}
	return &fEnv{t: t, node: n.(*BaseNodeService), board: board, ops: ops, fsms: fsms,
		me: me, myKeys: myKeys, other: "other", othKeys: keystore.NewKeyPair()}
}

func (e *fEnv) signed(priv ed25519.PrivateKey, sender, round, event string, data []byte) storage.Message {
	m := storage.Message{ID: uuid.New().String(), DkgRoundID: round, Event: event, Data: data, SenderAddr: sender}
	m.Signature = ed25519.Sign(priv, m.Bytes())
	return m
}

// openRound feeds the opening proposal of a two-party round (me, other) to the node.
func (e *fEnv) openRound(round string) {
	e.t.Helper()
	data, _ := json.Marshal(requests.SignatureProposalParticipantsListRequest{
		Participants: []*requests.SignatureProposalParticipantsEntry{
			{Username: e.me, PubKey: e.myKeys.Pub, DkgPubKey: make([]byte, 128)},
			{Username: e.other, PubKey: e.othKeys.Pub, DkgPubKey: make([]byte, 128)},
		},
		SigningThreshold: 2,
		CreatedAt:        time.Now(),
	})
	if err := e.node.ProcessMessage(e.signed(e.othKeys.Priv, e.other, round, string(spf.EventInitProposal), data)); err != nil {
		e.t.Fatalf("init proposal: %v", err)
	}
}

// toCommits brings a freshly opened round to the DKG commits step: both participants confirm.
func (e *fEnv) toCommits(round string) {
	e.t.Helper()
	for pid, who := range []struct {
		name string
		keys *keystore.KeyPair
	}{{e.me, e.myKeys}, {e.other, e.othKeys}} {
		data, _ := json.Marshal(requests.SignatureProposalParticipantRequest{ParticipantId: pid, CreatedAt: time.Now()})
		if err := e.node.ProcessMessage(e.signed(who.keys.Priv, who.name, round, string(spf.EventConfirmSignatureProposal), data)); err != nil {
			e.t.Fatalf("confirmation of %s: %v", who.name, err)
		}
	}
}

func (e *fEnv) pendingOfType(round string, typ string) *types.Operation {
	e.t.Helper()
	pool, err := e.ops.GetOperations()
	if err != nil {
		e.t.Fatalf("GetOperations: %v", err)
	}
	for _, o := range pool {
		if o.DKGIdentifier == round && string(o.Type) == typ {
			return o
		}
	}
	e.t.Fatalf("no pending operation of type %s for round %s (pool: %d entries)", typ, round, len(pool))
	return nil
}

func (e *fEnv) isPending(id string) bool {
	pool, err := e.ops.GetOperations()
	if err != nil {
		e.t.Fatalf("GetOperations: %v", err)
	}
	_, ok := pool[id]
	return ok
}

func (e *fEnv) pubPoly(round string) []byte {
	e.t.Helper()
	inst, err := e.fsms.GetFSMInstance(round, false)
	if err != nil {
		e.t.Fatalf("fsm %s: %v", round, err)
	}
	if inst.FSMDump().Payload.DKGProposalPayload == nil {
		e.t.Fatalf("round %s is not in the DKG stage", round)
	}
	return inst.FSMDump().Payload.DKGProposalPayload.PubPolyBz
}

func resultDTO(o *types.Operation) *dto.OperationDTO {
	return &dto.OperationDTO{ID: o.ID, Type: string(o.Type), Payload: o.Payload, ResultMsgs: o.ResultMsgs,
		CreatedAt: o.CreatedAt, DkgID: o.DKGIdentifier, To: o.To, Event: o.Event, ExtraData: o.ExtraData}
}

func fRound(c byte) string {
	b := make([]byte, 64)
	for i := range b {
		b[i] = c
	}
	return string(b)
}

// ---------------------------------------------------------------- findings

// F1. A result whose Event is "operation_processed_successfully" is accepted for ANY pending operation,
// not only for a reinit operation: a pending DKG commits operation is retired without a single message
// being posted, and the attacker-chosen ExtraData overwrites the public polynomial of the round.
func TestFindingProcessedEventAcceptedForNonReinitOperation(t *testing.T) {
	e := newFEnv(t)
	round := fRound('a')
	e.openRound(round)
	e.toCommits(round)
	op := e.pendingOfType(round, string(dpf.StateDkgCommitsAwaitConfirmations))
	before := len(e.board.all())

	res := *op
	res.Event = types.OperationProcessed
	res.ExtraData = []byte("not a public polynomial")
	err := e.node.ProcessOperation(resultDTO(&res))

	if err == nil {
		t.Errorf("a %s operation answered with event %q was accepted", op.Type, res.Event)
	}
	if !e.isPending(op.ID) {
		t.Errorf("the commits operation was retired although nothing was posted for it (board grew by %d)", len(e.board.all())-before)
	}
	if got := e.pubPoly(round); len(got) != 0 {
		t.Errorf("PubPolyBz of the round was overwritten with %q by the result of a commits operation", got)
	}
}

// F2. The round a reinit result is applied to is taken from the SUBMITTED result (DKGIdentifier is not
// part of Operation.Equal), so the answer to a pending reinit operation of round A rewrites the public
// polynomial of an unrelated round B.
func TestFindingReinitResultAppliedToRoundNamedInResult(t *testing.T) {
	e := newFEnv(t)
	roundA, roundB := fRound('a'), fRound('b')

	// round B: a live round in the DKG stage
	e.openRound(roundB)
	e.toCommits(roundB)

	// round A: reinitialised from an (empty) log, which leaves a pending reinit operation
	reinit, _ := json.Marshal(types.ReDKG{DKGID: roundA, Threshold: 2, Participants: []types.Participant{
		{Name: e.me, NewCommPubKey: e.myKeys.Pub, OldCommPubKey: e.myKeys.Pub},
		{Name: e.other, NewCommPubKey: e.othKeys.Pub, OldCommPubKey: e.othKeys.Pub},
	}})
	if err := e.node.ProcessMessage(e.signed(e.othKeys.Priv, e.other, roundA, string(types.ReinitDKG), reinit)); err != nil {
		t.Fatalf("reinit: %v", err)
	}
	op := e.pendingOfType(roundA, string(types.ReinitDKG))

	// what the airgapped machine returns, with one field changed on the way back: DKGIdentifier
	res := *op
	res.Event = types.OperationProcessed
	res.ExtraData = []byte("polynomial of round A")
	res.DKGIdentifier = roundB
	err := e.node.ProcessOperation(resultDTO(&res))

	if got := e.pubPoly(roundB); len(got) != 0 {
		t.Errorf("answer to the reinit operation of round A (err=%v) rewrote PubPolyBz of round B: %q", err, got)
	}
}

// F3. The same event on an operation of a round that has not reached the DKG stage dereferences a nil
// DKGProposalPayload: one POST to /handleProcessedOperationJSON panics the handler goroutine.
func TestFindingProcessedEventOnEarlyRoundPanics(t *testing.T) {
	e := newFEnv(t)
	round := fRound('c')
	e.openRound(round)
	op := e.pendingOfType(round, string(spf.StateAwaitParticipantsConfirmations))

	res := *op
	res.Event = types.OperationProcessed
	var err error
	func() {
		defer func() {
			if r := recover(); r != nil {
				t.Errorf("ProcessOperation panicked: %v", r)
			}
		}()
		err = e.node.ProcessOperation(resultDTO(&res))
	}()
	if err == nil && !t.Failed() {
		t.Errorf("a participation operation answered with event %q was accepted", res.Event)
	}
	if !e.isPending(op.ID) {
		t.Errorf("the participation operation is no longer pending")
	}
}

// F4. executeOperation is a check-then-act without any lock (the HTTP server runs handlers concurrently):
// two submissions of the same result that overlap both find the operation pending and both post it.
// The board's Send is used as the meeting point: it waits (at most 300ms) for a second concurrent caller.
func TestFindingConcurrentDuplicateSubmissionPostsTwice(t *testing.T) {
	e := newFEnv(t)
	round := fRound('d')
	e.openRound(round)
	e.toCommits(round)
	op := e.pendingOfType(round, string(dpf.StateDkgCommitsAwaitConfirmations))

	var (
		mu      sync.Mutex
		inSend  int
		arrived = make(chan struct{})
	)
	e.board.beforeSend = func(_ []storage.Message) error {
		mu.Lock()
		inSend++
		if inSend == 2 {
			close(arrived)
		}
		mu.Unlock()
		select {
		case <-arrived:
		case <-time.After(300 * time.Millisecond):
		}
		return nil
	}

	res := *op
	res.Event = dpf.EventDKGCommitConfirmationReceived
	data, _ := json.Marshal(requests.DKGProposalCommitConfirmationRequest{ParticipantId: 0, Commit: []byte("[]"), CreatedAt: op.CreatedAt})
	res.ResultMsgs = []storage.Message{{Event: string(res.Event), Data: data, DkgRoundID: round}}

	before := len(e.board.all())
	var wg sync.WaitGroup
	errs := make([]error, 2)
	for i := 0; i < 2; i++ {
		wg.Add(1)
		go func(i int) {
			defer wg.Done()
			r := res
			r.ResultMsgs = append([]storage.Message(nil), res.ResultMsgs...)
			errs[i] = e.node.ProcessOperation(resultDTO(&r))
		}(i)
	}
	wg.Wait()

	if posted := len(e.board.all()) - before; posted != 1 {
		t.Errorf("the result of one operation was posted %d times by two overlapping submissions (errors: %v / %v)", posted, errs[0], errs[1])
	}
}

var _ = errors.New
var _ = fmt.Sprintf
