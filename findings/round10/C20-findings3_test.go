// copy to client/services/node/zz_findings_test.go ; run: go test -vet=off -count=1 -run TestFinding ./client/services/node/
package node

import (
	"context"
	"encoding/json"
	"testing"
	"time"

	"github.com/golang/mock/gomock"

	"github.com/lidofinance/dc4bc/client/config"
	"github.com/lidofinance/dc4bc/client/modules/keystore"
	"github.com/lidofinance/dc4bc/client/modules/logger"
	"github.com/lidofinance/dc4bc/client/services"
	"github.com/lidofinance/dc4bc/client/types"
	"github.com/lidofinance/dc4bc/fsm/state_machines"
	spf "github.com/lidofinance/dc4bc/fsm/state_machines/signature_proposal_fsm"
	sif "github.com/lidofinance/dc4bc/fsm/state_machines/signing_proposal_fsm"
	"github.com/lidofinance/dc4bc/fsm/types/requests"
	"github.com/lidofinance/dc4bc/mocks/clientMocks"
	"github.com/lidofinance/dc4bc/mocks/serviceMocks"
	"github.com/lidofinance/dc4bc/mocks/storageMocks"
	"github.com/lidofinance/dc4bc/storage"
)

// findingNode builds a node over an in-memory round store; stored operations are appended to *ops.
func findingNode(t *testing.T, ctrl *gomock.Controller, userName string, ops *[]*types.Operation) (NodeService, map[string][]byte) {
	t.Helper()
	rounds := map[string][]byte{}
	state := clientMocks.NewMockState(ctrl)
	keyStore := clientMocks.NewMockKeyStore(ctrl)
	stg := storageMocks.NewMockStorage(ctrl)
	fsmService := serviceMocks.NewMockFSMService(ctrl)
	opService := serviceMocks.NewMockOperationService(ctrl)

	keyStore.EXPECT().LoadKeys(userName, "").AnyTimes().Return(keystore.NewKeyPair(), nil)
	opService.EXPECT().PutOperation(gomock.Any()).AnyTimes().DoAndReturn(func(o *types.Operation) error {
		*ops = append(*ops, o)
		return nil
	})
	fsmService.EXPECT().IsExist(gomock.Any()).AnyTimes().DoAndReturn(func(id string) (bool, error) {
		_, ok := rounds[id]
		return ok, nil
	})
	fsmService.EXPECT().GetFSMInstance(gomock.Any(), gomock.Any()).AnyTimes().DoAndReturn(func(id string, create bool) (*state_machines.FSMInstance, error) {
		if d, ok := rounds[id]; ok {
			return state_machines.FromDump(d)
		}
		return state_machines.Create(id)
	})
	fsmService.EXPECT().SaveFSM(gomock.Any(), gomock.Any()).AnyTimes().DoAndReturn(func(id string, dump []byte) error {
		rounds[id] = dump
		return nil
	})

	sp := services.ServiceProvider{}
	sp.SetLogger(logger.NewLogger(userName))
	sp.SetState(state)
	sp.SetKeyStore(keyStore)
	sp.SetStorage(stg)
	sp.SetFSMService(fsmService)
	sp.SetOperationService(opService)
	cfg := config.Config{Username: userName, KafkaStorageConfig: &config.KafkaStorageConfig{Topic: "topic"}}
	n, err := NewNode(context.Background(), &cfg, &sp)
	if err != nil {
		t.Fatal(err)
	}
	return n, rounds
}

// The replay loop of reinitDKG tests "is this a signing start?" BEFORE "does this message belong to the round being
// rebuilt?". A signing start of any OTHER round that sits in the file before the messages of the named round (a
// signing round of an older key was running on the shared board while this key generation was in progress) ends the
// replay: nothing of the named round is fed to the FSM, the node stores a reinit operation with an empty list and
// never becomes signing-ready, without any error.
func TestFindingReinitReplayStoppedByForeignSigningStart(t *testing.T) {
	ctrl := gomock.NewController(t)
	defer ctrl.Finish()

	var ops []*types.Operation
	n, rounds := findingNode(t, ctrl, "alice", &ops)

	initReq := requests.SignatureProposalParticipantsListRequest{SigningThreshold: 2, CreatedAt: time.Now()}
	var parts []types.Participant
	for _, name := range []string{"alice", "bob", "carol"} {
		kp := keystore.NewKeyPair()
		initReq.Participants = append(initReq.Participants, &requests.SignatureProposalParticipantsEntry{Username: name, PubKey: kp.Pub, DkgPubKey: make([]byte, 128)})
		parts = append(parts, types.Participant{Name: name, OldCommPubKey: kp.Pub, NewCommPubKey: keystore.NewKeyPair().Pub, DKGPubKey: make([]byte, 128)})
	}
	initBz, _ := json.Marshal(initReq)

	re := types.ReDKG{
		DKGID:        "R1",
		Threshold:    2,
		Participants: parts,
		Messages: []storage.Message{
			{ID: "r0-sign", DkgRoundID: "R0", Offset: 0, Event: string(sif.EventSigningStart), Data: []byte(`{}`), SenderAddr: "bob"},
			{ID: "r1-init", DkgRoundID: "R1", Offset: 1, Event: string(spf.EventInitProposal), Data: initBz, SenderAddr: "alice"},
		},
	}
	reBz, _ := json.Marshal(re)

	if err := n.ProcessMessage(storage.Message{ID: "reinit", DkgRoundID: "R1", Event: string(types.ReinitDKG), Data: reBz, SenderAddr: "alice"}); err != nil {
		t.Fatal(err)
	}

	if len(ops) != 1 {
		t.Fatalf("expected one stored reinit operation, got %d", len(ops))
	}
	var replayed []*types.Operation
	if err := json.Unmarshal(ops[0].Payload, &replayed); err != nil {
		t.Fatal(err)
	}
	if len(replayed) == 0 {
		t.Errorf("the reinit operation for round R1 carries no replayed operation: the signing start of round R0 ended the replay")
	}
	inst, err := state_machines.FromDump(rounds["R1"])
	if err != nil {
		t.Fatal(err)
	}
	if st := inst.FSMDump().State; st != spf.StateAwaitParticipantsConfirmations {
		t.Errorf("round R1 is in state %q after the replay, expected %q (its opening proposal was in the file)", st, spf.StateAwaitParticipantsConfirmations)
	}
}
