// copy to client/types/zz_findings_test.go ; run: go test -vet=off -count=1 -run TestFinding ./client/types/
package types

import (
	"encoding/json"
	"testing"
	"time"

	"github.com/lidofinance/dc4bc/fsm/state_machines/dkg_proposal_fsm"
	"github.com/lidofinance/dc4bc/fsm/state_machines/signature_proposal_fsm"
	"github.com/lidofinance/dc4bc/fsm/state_machines/signing_proposal_fsm"
	"github.com/lidofinance/dc4bc/fsm/types/requests"
	"github.com/lidofinance/dc4bc/storage"
)

func findingInitMessage(t *testing.T, round string, offset uint64, threshold int, names ...string) storage.Message {
	t.Helper()
	req := requests.SignatureProposalParticipantsListRequest{SigningThreshold: threshold, CreatedAt: time.Unix(1600000000, 0)}
	for _, n := range names {
		req.Participants = append(req.Participants, &requests.SignatureProposalParticipantsEntry{
			Username:  n,
			PubKey:    []byte("old-comm-key-" + n + "-" + round),
			DkgPubKey: []byte("dkg-key-" + n),
		})
	}
	data, err := json.Marshal(req)
	if err != nil {
		t.Fatal(err)
	}
	return storage.Message{ID: "init-" + round, DkgRoundID: round, Offset: offset, Event: string(signature_proposal_fsm.EventInitProposal), Data: data, SenderAddr: names[0]}
}

// A board is one topic shared by all rounds. History: a first proposal R1 with dave in the group is abandoned
// (declined / timed out), then the group without dave runs the key generation R2 to the end on the same board.
// GenerateReDKGMessage names R2 (the LAST proposal it saw) as the round to rebuild but APPENDS the participants of
// every proposal on the board, so the reinit file for R2 lists dave (and alice, bob, carol twice). reinitDKG then
// installs a communication key for dave in round R2, a round he never belonged to.
func TestFindingGenerateReDKGTwoProposalsOnOneBoard(t *testing.T) {
	var log []storage.Message
	log = append(log, findingInitMessage(t, "R1", 0, 3, "alice", "bob", "carol", "dave"))
	log = append(log, storage.Message{ID: "r1-decline", DkgRoundID: "R1", Offset: 1, Event: string(signature_proposal_fsm.EventDeclineProposal), Data: []byte(`{}`), SenderAddr: "carol"})
	log = append(log, findingInitMessage(t, "R2", 2, 2, "alice", "bob", "carol"))
	log = append(log, storage.Message{ID: "r2-commit", DkgRoundID: "R2", Offset: 3, Event: string(dkg_proposal_fsm.EventDKGCommitConfirmationReceived), Data: []byte(`{}`), SenderAddr: "alice"})
	log = append(log, storage.Message{ID: "r2-mk", DkgRoundID: "R2", Offset: 4, Event: string(dkg_proposal_fsm.EventDKGMasterKeyConfirmationReceived), Data: []byte(`{}`), SenderAddr: "alice"})

	keys := map[string][]byte{"alice": []byte("na"), "bob": []byte("nb"), "carol": []byte("nc"), "dave": []byte("nd")}
	re, err := GenerateReDKGMessage(log, keys)
	if err != nil {
		t.Fatal(err)
	}
	if re.DKGID != "R2" {
		t.Fatalf("unexpected round %q", re.DKGID)
	}
	var listed []string
	for _, p := range re.Participants {
		listed = append(listed, p.Name)
		if p.Name == "dave" {
			t.Errorf("the reinit file for round R2 lists dave, who only appears in the abandoned proposal R1")
		}
	}
	if len(re.Participants) != 3 {
		t.Errorf("the reinit file for round R2 (3 participants) lists %d: %v", len(re.Participants), listed)
	}
}

// The mirror image: a signing round of an OLDER key R0 is running while the key generation R1 is in progress
// ("interleaved signing rounds"). The signing start of R0 cuts the collection of R1 short.
func TestFindingGenerateReDKGForeignSigningStartTruncates(t *testing.T) {
	names := []string{"alice", "bob", "carol"}
	var log []storage.Message
	log = append(log, findingInitMessage(t, "R1", 10, 2, names...))
	log = append(log, storage.Message{ID: "r1-commit", DkgRoundID: "R1", Offset: 11, Event: string(dkg_proposal_fsm.EventDKGCommitConfirmationReceived), Data: []byte(`{}`), SenderAddr: "alice"})
	log = append(log, storage.Message{ID: "r0-sign", DkgRoundID: "R0", Offset: 12, Event: string(signing_proposal_fsm.EventSigningStart), Data: []byte(`{}`), SenderAddr: "bob"})
	log = append(log, storage.Message{ID: "r1-mk", DkgRoundID: "R1", Offset: 13, Event: string(dkg_proposal_fsm.EventDKGMasterKeyConfirmationReceived), Data: []byte(`{}`), SenderAddr: "alice"})

	re, err := GenerateReDKGMessage(log, map[string][]byte{"alice": {1}, "bob": {2}, "carol": {3}})
	if err != nil {
		t.Fatal(err)
	}
	found := false
	for _, m := range re.Messages {
		if m.ID == "r1-mk" {
			found = true
		}
	}
	if !found {
		t.Errorf("the master key message of round %q is missing from the reinit file: a signing start of round R0 ended the collection", re.DKGID)
	}
}
