// copy to client/services/node/zz_findings_test.go ; run: go test -vet=off -count=1 -run TestFinding ./client/services/node/
package node

import (
	"bytes"
	"context"
	"encoding/json"
	"fmt"
	"io"
	"os"
	"path/filepath"
	"testing"
	"time"

	"github.com/lidofinance/dc4bc/client/config"
	"github.com/lidofinance/dc4bc/client/modules/keystore"
	"github.com/lidofinance/dc4bc/client/modules/logger"
	"github.com/lidofinance/dc4bc/client/modules/state"
	oprepo "github.com/lidofinance/dc4bc/client/repositories/operation"
	sigrepo "github.com/lidofinance/dc4bc/client/repositories/signature"
	"github.com/lidofinance/dc4bc/client/services"
	"github.com/lidofinance/dc4bc/client/services/fsmservice"
	"github.com/lidofinance/dc4bc/client/services/operation"
	"github.com/lidofinance/dc4bc/client/services/signature"
	"github.com/lidofinance/dc4bc/client/types"
	spf "github.com/lidofinance/dc4bc/fsm/state_machines/signature_proposal_fsm"
	"github.com/lidofinance/dc4bc/fsm/types/requests"
	"github.com/lidofinance/dc4bc/storage"
	"github.com/lidofinance/dc4bc/storage/file_storage"
)

// ---------------------------------------------------------------------------
// harness: a node on a real LevelDB state directory and a file board; the state
// is wrapped so that the process "dies" (panic, recovered by the harness) just
// before its k-th durable write.  A restart is a new node on a byte copy of the
// state directory (the copy plays the role of the disk after kill -9: goleveldb
// has already handed every completed Put to the OS).
// ---------------------------------------------------------------------------

type findingCrash struct{}

type findingCrashState struct {
	state.State
	writes  int
	crashAt int // 0: never
}

func (s *findingCrashState) tick() {
	s.writes++
	if s.crashAt != 0 && s.writes == s.crashAt {
		panic(findingCrash{})
	}
}
func (s *findingCrashState) Set(k string, v []byte) error { s.tick(); return s.State.Set(k, v) }
func (s *findingCrashState) SaveOffset(o uint64) error    { s.tick(); return s.State.SaveOffset(o) }

const findingTopic = "topic"
const findingUser = "node0"

type findingNode struct {
	node  *BaseNodeService
	st    *findingCrashState
	fsm   fsmservice.FSMService
	ops   operation.OperationService
	stDir string
}

func findingCopyDir(t *testing.T, from, to string) {
	t.Helper()
	if err := os.MkdirAll(to, 0o755); err != nil {
		t.Fatal(err)
	}
	entries, err := os.ReadDir(from)
	if err != nil {
		t.Fatal(err)
	}
	for _, e := range entries {
		if e.IsDir() || e.Name() == "LOCK" {
			continue
		}
		in, err := os.Open(filepath.Join(from, e.Name()))
		if err != nil {
			t.Fatal(err)
		}
		out, err := os.Create(filepath.Join(to, e.Name()))
		if err != nil {
			t.Fatal(err)
		}
		if _, err := io.Copy(out, in); err != nil {
			t.Fatal(err)
		}
		in.Close()
		out.Close()
	}
}

func findingOpenNode(t *testing.T, stDir string, ks keystore.KeyStore, boardFile, lockFile string) *findingNode {
	t.Helper()
	ldb, err := state.NewLevelDBState(stDir, findingTopic)
	if err != nil {
		t.Fatalf("open state: %v", err)
	}
	st := &findingCrashState{State: ldb}
	stg, err := file_storage.NewFileStorage(boardFile, lockFile)
	if err != nil {
		t.Fatal(err)
	}
	opRepo, err := oprepo.NewOperationRepo(st, findingTopic)
	if err != nil {
		t.Fatal(err)
	}
	sp := services.ServiceProvider{}
	sp.SetLogger(logger.NewLogger(findingUser))
	sp.SetState(st)
	sp.SetKeyStore(ks)
	sp.SetStorage(stg)
	fsmSvc := fsmservice.NewFSMService(st, stg, findingTopic)
	sp.SetFSMService(fsmSvc)
	opSvc := operation.NewOperationService(opRepo)
	sp.SetOperationService(opSvc)
	sp.SetSignatureService(signature.NewSignatureService(sigrepo.NewSignatureRepo(st)))
	cfg := config.Config{Username: findingUser, KafkaStorageConfig: &config.KafkaStorageConfig{Topic: findingTopic}}
	n, err := NewNode(context.Background(), &cfg, &sp)
	if err != nil {
		t.Fatal(err)
	}
	st.writes = 0 // count only the writes of message handling
	return &findingNode{node: n.(*BaseNodeService), st: st, fsm: fsmSvc, ops: opSvc, stDir: stDir}
}

// findingPollOnce is the body of one tick of BaseNodeService.Poll, verbatim; it reports
// whether the node "died" at the injected crash point.
func (fn *findingNode) pollOnce(t *testing.T) (crashed bool) {
	t.Helper()
	defer func() {
		if r := recover(); r != nil {
			if _, ok := r.(findingCrash); ok {
				crashed = true
				return
			}
			panic(r)
		}
	}()
	s := fn.node
	offset, err := s.getState().LoadOffset()
	if err != nil {
		t.Fatal(err)
	}
	messages, err := s.storage.GetMessages(offset)
	if err != nil {
		t.Fatal(err)
	}
	for _, message := range messages {
		if message.RecipientAddr == "" || message.RecipientAddr == s.GetUsername() {
			if err := s.ProcessMessage(message); err != nil {
				t.Logf("message %d (%s) refused: %v", message.Offset, message.Event, err)
			}
		}
		if err := s.getState().SaveOffset(message.Offset + 1); err != nil {
			t.Fatal(err)
		}
	}
	return false
}

// TestFindingReinitCrashLeavesRoundHalfReinitialised:
// reinitDKG performs three state writes for a reinitialisation message: (1) the round, written by
// the replay of the old messages, (2) the ReinitDKG operation, (3) the round again, now with the new
// communication keys.  Its idempotence guard is "the round exists => nothing to do".  A node killed
// after (1) sees the guard satisfied after the restart and never performs (2) and (3); killed after
// (2) it never performs (3).
func TestFindingReinitCrashLeavesRoundHalfReinitialised(t *testing.T) {
	const dkgID = "round-to-reinit"
	type outcome struct {
		newKeyStored bool
		reinitOps    int
		offset       uint64
	}

	run := func(t *testing.T, crashAt int) outcome {
		dir := t.TempDir()
		board, lock := filepath.Join(dir, "board"), filepath.Join(dir, "board.lock")

		ks, err := keystore.NewLevelDBKeyStore(findingUser, filepath.Join(dir, "ks"))
		if err != nil {
			t.Fatal(err)
		}
		myKeys := keystore.NewKeyPair()
		if err := ks.PutKeys(findingUser, myKeys); err != nil {
			t.Fatal(err)
		}
		oldPeer, newPeer := keystore.NewKeyPair(), keystore.NewKeyPair()

		// the old log of the round: only its opening proposal
		initReq := requests.SignatureProposalParticipantsListRequest{
			Participants: []*requests.SignatureProposalParticipantsEntry{
				{Username: findingUser, PubKey: myKeys.Pub, DkgPubKey: make([]byte, 128)},
				{Username: "peer", PubKey: oldPeer.Pub, DkgPubKey: make([]byte, 128)},
			},
			CreatedAt:        time.Now(),
			SigningThreshold: 2,
		}
		initBz, _ := json.Marshal(initReq)
		oldLog := []storage.Message{{ID: "m0", DkgRoundID: dkgID, Event: string(spf.EventInitProposal), Data: initBz, SenderAddr: "peer"}}
		reDKG, err := types.GenerateReDKGMessage(oldLog, map[string][]byte{findingUser: myKeys.Pub, "peer": newPeer.Pub})
		if err != nil {
			t.Fatal(err)
		}
		reBz, _ := json.Marshal(reDKG)

		stg, err := file_storage.NewFileStorage(board, lock)
		if err != nil {
			t.Fatal(err)
		}
		if err := stg.Send(storage.Message{DkgRoundID: dkgID, Event: string(types.ReinitDKG), Data: reBz, SenderAddr: "peer"}); err != nil {
			t.Fatal(err)
		}

		stDir := filepath.Join(dir, "state0")
		n := findingOpenNode(t, stDir, ks, board, lock)
		n.st.crashAt = crashAt
		crashed := n.pollOnce(t)
		if crashAt != 0 && !crashed {
			t.Fatalf("crash point %d was not reached (writes: %d)", crashAt, n.st.writes)
		}
		if crashed {
			// restart on the same (copied) state directory and let the node catch up
			stDir2 := filepath.Join(dir, "state1")
			findingCopyDir(t, stDir, stDir2)
			n = findingOpenNode(t, stDir2, ks, board, lock)
			if n.pollOnce(t) {
				t.Fatal("unexpected second crash")
			}
		}

		var out outcome
		out.offset, _ = n.node.getState().LoadOffset()
		ops, err := n.ops.GetOperations()
		if err != nil {
			t.Fatal(err)
		}
		for _, op := range ops {
			if string(op.Type) == string(types.ReinitDKG) {
				out.reinitOps++
			}
		}
		if inst, err := n.fsm.GetFSMInstance(dkgID, false); err == nil {
			if k, err := inst.GetPubKeyByUsername("peer"); err == nil && bytes.Equal(k, newPeer.Pub) {
				out.newKeyStored = true
			}
		}
		return out
	}

	ref := run(t, 0)
	if !ref.newKeyStored || ref.reinitOps != 1 || ref.offset != 1 {
		t.Fatalf("reference run is not what the test assumes: %+v", ref)
	}
	// writes while handling the message: 1 round (replay), 2 operation, 3 round (new keys), 4 offset
	for crashAt := 1; crashAt <= 4; crashAt++ {
		crashAt := crashAt
		t.Run(fmt.Sprintf("killed_before_write_%d", crashAt), func(t *testing.T) {
			got := run(t, crashAt)
			if got != ref {
				t.Errorf("after a kill before write %d and a restart the node ends with %+v, without the crash with %+v", crashAt, got, ref)
			}
		})
	}
}
