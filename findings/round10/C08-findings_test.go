// copy to client/services/node/zz_findings_test.go ; run: go test -vet=off -count=1 -run TestFinding ./client/services/node/
package node

import (
	"context"
	"crypto/ed25519"
	"encoding/json"
	"fmt"
	"path/filepath"
	"strings"
	"sync"
	"testing"
	"time"

	"github.com/lidofinance/dc4bc/client/api/dto"
	"github.com/lidofinance/dc4bc/client/config"
	"github.com/lidofinance/dc4bc/client/modules/keystore"
	"github.com/lidofinance/dc4bc/client/modules/logger"
	"github.com/lidofinance/dc4bc/client/modules/state"
	oprepo "github.com/lidofinance/dc4bc/client/repositories/operation"
	sigrepo "github.com/lidofinance/dc4bc/client/repositories/signature"
	"github.com/lidofinance/dc4bc/client/services"
	"github.com/lidofinance/dc4bc/client/services/fsmservice"
	opsvc "github.com/lidofinance/dc4bc/client/services/operation"
	sigsvc "github.com/lidofinance/dc4bc/client/services/signature"
	fsmconfig "github.com/lidofinance/dc4bc/fsm/config"
	dpf "github.com/lidofinance/dc4bc/fsm/state_machines/dkg_proposal_fsm"
	spf "github.com/lidofinance/dc4bc/fsm/state_machines/signature_proposal_fsm"
	"github.com/lidofinance/dc4bc/fsm/types/requests"
	"github.com/lidofinance/dc4bc/storage"
	"github.com/lidofinance/dc4bc/storage/file_storage"
)

const findingTopic = "topic"

type findingHookLogger struct {
	mu   sync.Mutex
	hook func(format string, args ...interface{})
}

func (l *findingHookLogger) Log(format string, args ...interface{}) {
	l.mu.Lock()
	h := l.hook
	l.mu.Unlock()
	if h != nil {
		h(format, args...)
	}
}

type findingNode struct {
	svc    NodeService
	st     *state.LevelDBState
	fsmSvc fsmservice.FSMService
	stg    storage.Storage
}

func newFindingNode(t *testing.T, ctx context.Context, dir, username string, lg logger.Logger) *findingNode {
	t.Helper()
	st, err := state.NewLevelDBState(filepath.Join(dir, "state_"+username), findingTopic)
	if err != nil {
		t.Fatal(err)
	}
	stg, err := file_storage.NewFileStorage(filepath.Join(dir, "board_"+username), filepath.Join(dir, "lock_"+username))
	if err != nil {
		t.Fatal(err)
	}
	ks, err := keystore.NewLevelDBKeyStore(username, filepath.Join(dir, "keys_"+username))
	if err != nil {
		t.Fatal(err)
	}
	if err := ks.PutKeys(username, keystore.NewKeyPair()); err != nil {
		t.Fatal(err)
	}
	opRepo, err := oprepo.NewOperationRepo(st, findingTopic)
	if err != nil {
		t.Fatal(err)
	}
	fsmSvc := fsmservice.NewFSMService(st, stg, findingTopic)

	sp := services.ServiceProvider{}
	sp.SetLogger(lg)
	sp.SetState(st)
	sp.SetKeyStore(ks)
	sp.SetStorage(stg)
	sp.SetFSMService(fsmSvc)
	sp.SetOperationService(opsvc.NewOperationService(opRepo))
	sp.SetSignatureService(sigsvc.NewSignatureService(sigrepo.NewSignatureRepo(st)))

	cfg := config.Config{Username: username, KafkaStorageConfig: &config.KafkaStorageConfig{Topic: findingTopic}}
	svc, err := NewNode(ctx, &cfg, &sp)
	if err != nil {
		t.Fatal(err)
	}
	return &findingNode{svc: svc, st: st, fsmSvc: fsmSvc, stg: stg}
}

type findingParty struct {
	name string
	kp   *keystore.KeyPair
}

func findingParties() []findingParty {
	return []findingParty{{"alice", keystore.NewKeyPair()}, {"bobby", keystore.NewKeyPair()}}
}

func findingMsg(t *testing.T, round string, event string, sender findingParty, req interface{}) storage.Message {
	t.Helper()
	bz, err := json.Marshal(req)
	if err != nil {
		t.Fatal(err)
	}
	m := storage.Message{DkgRoundID: round, Event: event, Data: bz, SenderAddr: sender.name}
	m.Signature = ed25519.Sign(sender.kp.Priv, m.Bytes())
	return m
}

func findingInit(t *testing.T, round string, ps []findingParty, at time.Time) storage.Message {
	req := requests.SignatureProposalParticipantsListRequest{CreatedAt: at, SigningThreshold: 2}
	for _, p := range ps {
		req.Participants = append(req.Participants, &requests.SignatureProposalParticipantsEntry{
			Username: p.name, PubKey: p.kp.Pub, DkgPubKey: []byte("dkg-pub-key-of-" + p.name),
		})
	}
	return findingMsg(t, round, string(spf.EventInitProposal), ps[0], req)
}

// Finding 1: the deadline of the DKG phase is anchored at the wall clock of the node at the moment it
// consumes the last participation confirmation (processMessage: EventDKGInitProcess with
// CreatedAt: time.Now()), not at anything written on the board. Two nodes that consume the very same
// log at different times therefore disagree on whether a later commit is "within the deadline":
// one ends in the timeout state, the other carries on. (Real life: a node rebuilt by replaying the
// log a week later never sees the timeout the live nodes saw.) The test compresses the week into
// half a second by placing the commit's timestamp between the two nodes' private deadlines.
func TestFindingDKGDeadlineAnchoredAtNodeClock(t *testing.T) {
	dir := t.TempDir()
	ctx := context.Background()
	quiet := &findingHookLogger{}
	a := newFindingNode(t, ctx, dir, "node_a", quiet)
	b := newFindingNode(t, ctx, dir, "node_b", quiet)

	ps := findingParties()
	round := "round-deadline"
	t0 := time.Now().Add(-time.Hour)
	prefix := []storage.Message{
		findingInit(t, round, ps, t0),
		findingMsg(t, round, string(spf.EventConfirmSignatureProposal), ps[0],
			requests.SignatureProposalParticipantRequest{ParticipantId: 0, CreatedAt: t0.Add(time.Minute)}),
		findingMsg(t, round, string(spf.EventConfirmSignatureProposal), ps[1],
			requests.SignatureProposalParticipantRequest{ParticipantId: 1, CreatedAt: t0.Add(time.Minute)}),
	}

	for i, m := range prefix {
		if err := a.svc.ProcessMessage(m); err != nil {
			t.Fatalf("node a, message %d: %v", i, err)
		}
	}
	afterA := time.Now()
	time.Sleep(600 * time.Millisecond)
	for i, m := range prefix {
		if err := b.svc.ProcessMessage(m); err != nil {
			t.Fatalf("node b, message %d: %v", i, err)
		}
	}

	// one and the same board message for both nodes
	commit := findingMsg(t, round, string(dpf.EventDKGCommitConfirmationReceived), ps[0],
		requests.DKGProposalCommitConfirmationRequest{
			ParticipantId: 0, Commit: []byte("commit"),
			CreatedAt: afterA.Add(fsmconfig.DkgConfirmationDeadline).Add(200 * time.Millisecond),
		})
	errA := a.svc.ProcessMessage(commit)
	errB := b.svc.ProcessMessage(commit)

	da, err := a.fsmSvc.GetFSMDump(&dto.DkgIdDTO{DkgID: round})
	if err != nil {
		t.Fatal(err)
	}
	db, err := b.fsmSvc.GetFSMDump(&dto.DkgIdDTO{DkgID: round})
	if err != nil {
		t.Fatal(err)
	}
	if da.State != db.State {
		t.Fatalf("two nodes consumed the same log and disagree on the phase of the round: node a %q (err %v), node b %q (err %v)",
			da.State, errA, db.State, errB)
	}
	for id, pa := range da.Payload.DKGProposalPayload.Quorum {
		if pb := db.Payload.DKGProposalPayload.Quorum[id]; pa.Status != pb.Status {
			t.Fatalf("participant %d: status %s on node a, %s on node b", id, pa.Status, pb.Status)
		}
	}
}

// Finding 2: a state reset that arrives while Poll is in the middle of a batch. Poll fetched the
// batch with the offset of the OLD database; Reset swaps the database under the same State object;
// the rest of the batch is then applied to the NEW, empty database and SaveOffset(message.Offset+1)
// moves the new database's offset into the middle of the log. The messages before that point are
// never replayed: the "rebuilt" node misses rounds (or halves of rounds) that are on the board.
func TestFindingResetInTheMiddleOfAPollBatch(t *testing.T) {
	dir := t.TempDir()
	ctx, cancel := context.WithCancel(context.Background())
	defer cancel()

	lg := &findingHookLogger{}
	n := newFindingNode(t, ctx, dir, "node_r", lg)

	ps := findingParties()
	t0 := time.Now().Add(-time.Hour)
	rounds := []string{"round-0", "round-1", "round-2"}
	for _, r := range rounds {
		if err := n.stg.Send(findingInit(t, r, ps, t0)); err != nil {
			t.Fatal(err)
		}
	}

	var once sync.Once
	var resetErr error
	lg.hook = func(format string, args ...interface{}) {
		// the operator's reset request lands between the first and the second message of the batch
		if strings.HasPrefix(format, "Handling message") && len(args) > 0 && fmt.Sprint(args[0]) == "1" {
			once.Do(func() {
				_, resetErr = n.fsmSvc.ResetFSMState(&dto.ResetStateDTO{NewStateDBDSN: filepath.Join(dir, "state_after_reset")})
			})
		}
	}

	done := make(chan error, 1)
	go func() { done <- n.svc.Poll() }()
	time.Sleep(3500 * time.Millisecond) // three ticks: plenty to replay three messages
	cancel()
	if err := <-done; err != nil {
		t.Fatalf("poll: %v", err)
	}
	if resetErr != nil {
		t.Fatalf("reset: %v", resetErr)
	}

	list, err := n.fsmSvc.GetFSMList()
	if err != nil {
		t.Fatal(err)
	}
	off, err := n.st.LoadOffset()
	if err != nil {
		t.Fatal(err)
	}
	for _, r := range rounds {
		if _, ok := list[r]; !ok {
			t.Fatalf("after the reset the node consumed the board up to offset %d but round %q is missing from its state (has %v): "+
				"the tail of the interrupted batch was applied to the new database and pushed its offset past the start of the log", off, r, list)
		}
	}
}
