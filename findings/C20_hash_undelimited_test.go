package types

import (
	"bytes"
	"testing"
)

// Known finding D12 (property C20): the confirmation hash is computed over the plain concatenation of the
// fields, so two different reinit files can have the same hash without any SHA-1 collision.
// Run with: go test -overlay <overlay placing this file into client/types> -run TestFindingC20HashUndelimited ./client/types
func TestFindingC20HashUndelimited(t *testing.T) {
	a := []byte(`{"dkg_id":"round","threshold":12,"participants":[{"name":"alice","new_comm_pub_key":"AQI="},{"name":"bob"}]}`)
	b := []byte(`{"dkg_id":"round1","threshold":2,"participants":[{"name":"alic","new_comm_pub_key":"AQI="},{"name":"ebob"}]}`)
	ha, err := CalcStartReInitDKGMessageHash(a)
	if err != nil {
		t.Fatal(err)
	}
	hb, err := CalcStartReInitDKGMessageHash(b)
	if err != nil {
		t.Fatal(err)
	}
	if bytes.Equal(ha, hb) {
		t.Fatalf("two reinit files that differ in round id, threshold and two participant names have the same confirmation hash %x", ha)
	}
}
