package node

import (
	"testing"

	"encoding/base64"
	"fmt"

	"github.com/lidofinance/dc4bc/fsm/state_machines"
	"github.com/lidofinance/dc4bc/storage"
)

// D17 (C18): the opening proposal of a round is not signature-checked and its validator only asks for a
// communication key of at least 10 bytes; a later message in the name of a participant registered with a key that is
// not 32 bytes long made ed25519.Verify panic inside verifyMessage (no recover in the polling loop).
func TestFindingC18WrongLengthSenderKeyIsRefusedWithoutPanic(t *testing.T) {
	for _, n := range []int{10, 31, 33, 64} {
		bz := []byte(fmt.Sprintf(`{"TransactionID":"r","State":"state_sig_proposal_await_participants_confirmations","Payload":{"DkgId":"r","PubKeys":{"mallory":%q}}}`,
			base64.StdEncoding.EncodeToString(make([]byte, n))))
		inst, err := state_machines.FromDump(bz)
		if err != nil {
			t.Fatalf("FromDump: %v", err)
		}
		s := &BaseNodeService{}
		func() {
			defer func() {
				if r := recover(); r != nil {
					t.Fatalf("a message from a sender registered with a %d-byte key makes the node panic: %v", n, r)
				}
			}()
			if err := s.verifyMessage(inst, storage.Message{SenderAddr: "mallory", Data: []byte("x"), Signature: make([]byte, 64)}); err == nil {
				t.Fatalf("a message under a %d-byte key was accepted", n)
			}
		}()
	}
}
