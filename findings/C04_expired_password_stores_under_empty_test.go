package airgapped

import (
	"testing"

	bls12381 "github.com/corestario/kyber/pairing/bls12381"
	"github.com/corestario/kyber/share"
	"github.com/syndtr/goleveldb/leveldb"

	"github.com/lidofinance/dc4bc/dkg"
)

// D21 (C04): DropSensitiveData (the password expiry of the CLI) sets the encryption key to nil, and neither saveBLSKeyring
// nor SaveKeysToDB looked at it: scrypt accepts an empty password, so a master-key step that ran after the expiry (the
// DKG instances still hold the long-term key) stored the round's BLS share encrypted under the EMPTY password, and a machine
// whose keys were generated before any password was set stored its long-term private key the same way. Whoever has the
// database files then loads them with the empty password - not the operator's. Repaired: both refuse to write secrets while
// no password is set.
func TestFindingC04SecretsAreNeverStoredUnderTheEmptyPassword(t *testing.T) {
	dir := t.TempDir()
	am, err := NewMachine(dir)
	if err != nil {
		t.Fatal(err)
	}
	am.SetEncryptionKey([]byte("the operator's password"))
	if err := am.InitKeys(); err != nil {
		t.Fatal(err)
	}
	suite := bls12381.NewBLS12381Suite(nil)
	priPoly := share.NewPriPoly(suite, 2, nil, suite.RandomStream())
	keyring := &dkg.BLSKeyring{PubPoly: priPoly.Commit(nil), Share: priPoly.Shares(3)[0]}

	am.DropSensitiveData() // the password expired
	if err := am.saveBLSKeyring("round-1", keyring); err == nil {
		// it was written: can it be read back without the operator's password?
		am.SetEncryptionKey(nil)
		if rings, err := am.GetBLSKeyrings(); err == nil && rings["round-1"] != nil {
			t.Errorf("after the password expired the BLS share of round-1 was stored under the empty password: it loads without the operator's password")
		} else {
			t.Errorf("saveBLSKeyring wrote a keyring while no password was set (load with the empty password: %v)", err)
		}
	}
	_ = am.db.Close()

	// a machine whose keys are generated while no password is set
	dir2 := t.TempDir()
	am2, err := NewMachine(dir2)
	if err != nil {
		t.Fatal(err)
	}
	if err := am2.InitKeys(); err == nil {
		_ = am2.db.Close()
		am3, err := NewMachine(dir2)
		if err != nil {
			t.Fatal(err)
		}
		am3.SetEncryptionKey([]byte{})
		if err := am3.LoadKeysFromDB(); err == nil {
			t.Errorf("keys generated while no password was set were stored under the empty password: the long-term private key loads without any password")
		}
		_ = am3.db.Close()
	} else {
		_ = am2.db.Close()
	}
	_ = leveldb.ErrNotFound
}
