#!/usr/bin/env python3
"""Regenerates /verif/MANIFEST.json from the table below (kept in one place so that the
claimed / not-applicable split is always complete for C01..C20)."""
import json

TECH = "contract-based deductive verification: weakest-precondition VCs generated from go/ssa of the real code (gocv), contracts in /repo/<pkg>/contracts_verif.go, discharged by z3 5.1 / z3 4.8 / cvc5"

CLAIMED = {
 # id: (level text, level note, design ref)
}
NOT_APPLICABLE = {
}

def load(path):
    try:
        return json.load(open(path))
    except Exception:
        return {}

tbl = load('/verif/manifest_table.json')
CLAIMED = tbl.get('claimed', {})
NOT_APPLICABLE = tbl.get('not_applicable', {})

ids = ["C%02d" % i for i in range(1, 21)]
checks = []
for i in ids:
    if i in CLAIMED:
        c = CLAIMED[i]
        checks.append({
            "property_id": i,
            "quick_cmd": "./check %s quick" % i,
            "thorough_cmd": "./check %s thorough" % i,
            "evidence_file": "/verif/evidence/%s.json" % i,
            "replay_cmd_template": "cat {path}",
            "engine": "gocv",
            "level_claimed": {"category": "proof", "text": c["text"], "design_ref": c.get("design_ref", "DESIGN.md section 5, " + i)},
            "level_note": c["note"],
            "technique": c.get("technique", TECH),
        })
na = []
for i in ids:
    if i not in CLAIMED:
        na.append({"property_id": i, "reason": NOT_APPLICABLE.get(i, "no check registered yet: contracts for the functions this property depends on are not complete (work in progress)")})
m = {
 "version": 1,
 "setup_cmd": "cd /verif/gocv && GOFLAGS=-mod=mod GOPROXY=off GOSUMDB=off GOTOOLCHAIN=local go build -o /verif/bin/gocv .",
 "hooks": {
   "guard": "verif",
   "enable": "go build tag `verif`: gocv loads /repo with -tags=verif so that the comment-only contract files <pkg>/contracts_verif.go are part of each package; no executable code is guarded",
   "baseline_off_cmd": "/verif/run_baseline.sh /repo",
   "source_commits": tbl.get("hook_commits", []),
   "add_only": True,
 },
 "engines": [{"name": "gocv", "path": "/verif/gocv", "serves_properties": sorted(CLAIMED.keys()),
              "kind_free_text": "own deductive verifier for a Go subset: go/packages + go/ssa -> block-equation verification conditions (SMT-LIB), function contracts as structured comments, modular (callers see callee contracts only), loop invariants, ghost state, inferred modifies sets; back ends z3 5.1.0 (incremental), z3 4.8.12 and cvc5 1.0.3 raced on obligations not discharged in the first pass"}],
 "checks": checks,
 "not_applicable": na,
 "notes": "Every check rebuilds gocv if its sources changed, loads /repo's working tree (go/packages, tag verif), regenerates all verification conditions and re-discharges them. Exit 0 = all claimed obligations discharged (KNOWN-FINDING lines allowed), 1 = VIOLATION, 2 = engine error / undecided obligation that was never in the baseline.",
}
json.dump(m, open('/verif/MANIFEST.json', 'w'), indent=1)
print("claimed:", sorted(CLAIMED.keys()))
