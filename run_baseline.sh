#!/bin/bash
# Runs the repository's baseline test suite with the verif guard OFF and reports whether
# every stable baseline test passes. usage: run_baseline.sh [repo_dir]
export GOFLAGS=-mod=mod GOPROXY=off GOSUMDB=off GOTOOLCHAIN=local
REPO="${1:-/repo}"
OUT=$(mktemp)
(cd "$REPO" && go test -mod=mod -json -vet=off -count=1 -timeout 25m ./... ) > "$OUT" 2>/dev/null
python3 - "$OUT" <<'PY'
import json,sys
want=set(json.load(open('/root/.vp/BASELINE.json'))['stable_pass'])
res={}
for l in open(sys.argv[1]):
    try: e=json.loads(l)
    except Exception: continue
    if e.get('Test') and e.get('Action') in('pass','fail','skip'):
        res[e['Package']+'::'+e['Test']]=e['Action']
bad=[t for t in sorted(want) if res.get(t)!='pass']
print("baseline stable tests: %d, passing: %d"%(len(want),len(want)-len(bad)))
for t in bad: print("NOT PASSING:",t,res.get(t))
sys.exit(1 if bad else 0)
PY
rc=$?
rm -f "$OUT"
exit $rc
