#!/usr/bin/env python3
# usage: write_metas.py <round> <confirm-output-file> <json file: {id: first_test}>  -- writes seeded/<id>/meta.json
import json,re,sys
rnd=int(sys.argv[1]); conf={}
for l in open(sys.argv[2]):
    m=re.match(r'(C\d+-m\d+): demo_without=(\d+) build=(\d+) demo_with=(\d+) baseline_with=(\d+)',l)
    if m: conf[m.group(1)]=tuple(int(x) for x in m.groups()[1:])
first=json.load(open(sys.argv[3]))
for id,fr in first.items():
    d=f'/verif/seeded/{id}'
    patch=open(d+'/patch.diff').read()
    files=re.findall(r'^diff --git a/(\S+)',patch,re.M)
    title=open(d+'/notes.md').read().strip().split('\n')[0].lstrip('# ').strip()
    c=conf[id]
    meta={'id':id,'property':id.split('-')[0],'round':rnd,'title':title,'files_changed':files,
     'produced_by':'independent sub-agent given only the property text and a scratch worktree of /repo (nothing from /verif)',
     'confirmed_by_me':{'how':'/verif/tools/confirm_mutants.sh in a scratch worktree of /repo HEAD: demo test without the patch, git apply, go build ./..., demo test with the patch, then go test of every package except the flaky ./client flow package (the stable baseline tests) with the patch',
        'demo_without_patch_exit':c[0],'build_exit':c[1],'demo_with_patch_exit':c[2],'stable_baseline_with_patch_exit':c[3]},
     'first_test':fr}
    json.dump(meta,open(d+'/meta.json','w'),indent=1)
print(len(first),'metas written')
