#!/bin/bash
# usage: try_scratch.sh <patch.diff> <prop> [<prop>...]
# Applies the patch to a private scratch worktree of /repo's HEAD (never to /repo itself) and runs the quick checks of the
# listed properties against it with a private copy of /verif; several invocations can run side by side. One line per property.
P="$1"; shift
export GOFLAGS=-mod=mod GOPROXY=off GOSUMDB=off GOTOOLCHAIN=local
S=$(mktemp -d /tmp/tryscr.XXXXXX)
git -C /repo worktree add --detach $S/repo HEAD >/dev/null 2>&1 || { echo "cannot create worktree"; exit 2; }
rsync -a --exclude work --exclude replays --exclude .git --exclude seeded /verif/ $S/verif/
if ! git -C $S/repo apply "$P"; then echo "$(basename $(dirname $P)) patch-does-not-apply"; else
for p in "$@"; do
  $S/verif/bin/gocv check -prop $p -tier quick -repo $S/repo -verif $S/verif > $S/out.txt 2>&1; rc=$?
  v=$(grep -c "^VIOLATION" $S/out.txt); u=$(grep -c "^UNDECIDED" $S/out.txt)
  echo "$(basename $(dirname $P)) $p exit=$rc violations=$v undecided=$u $(grep -m1 '^VIOLATION\|^UNDECIDED\|^ENGINE' $S/out.txt | sed 's/replay=.*//' | cut -c1-230)"
  [ -n "$KEEP_OUT" ] && cp $S/out.txt "$KEEP_OUT.$p.txt"
done; fi
git -C /repo worktree remove --force $S/repo
rm -rf $S
