module tabledump

go 1.19

require github.com/lidofinance/dc4bc v0.0.0

require (
	github.com/ferranbt/fastssz v0.1.1 // indirect
	github.com/klauspost/cpuid/v2 v2.2.1 // indirect
	github.com/minio/sha256-simd v1.0.0 // indirect
	github.com/mitchellh/mapstructure v1.4.2 // indirect
	gopkg.in/yaml.v2 v2.4.0 // indirect
)

replace github.com/lidofinance/dc4bc => /repo
