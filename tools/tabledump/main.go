// tabledump evaluates the closed terms New() of the three state machines and
// fsm_pool.Init(New(), New(), New()) by running the real code, and prints the resulting
// transition tables, callback bindings and pool maps as JSON. gocv turns them into ground facts
// (the constructors take no input, so evaluating them is exact, not a sample).
package main

import (
	"encoding/json"
	"fmt"
	"os"
	"reflect"
	"runtime"
	"sort"
	"strings"
	"unsafe"

	"github.com/lidofinance/dc4bc/fsm/fsm_pool"
	"github.com/lidofinance/dc4bc/fsm/state_machines"
	dpf "github.com/lidofinance/dc4bc/fsm/state_machines/dkg_proposal_fsm"
	spf "github.com/lidofinance/dc4bc/fsm/state_machines/signature_proposal_fsm"
	sif "github.com/lidofinance/dc4bc/fsm/state_machines/signing_proposal_fsm"
)

type Transition struct {
	Source, Event, Dst string
	Internal, Auto     bool
	RunMode            int
}
type AutoTr struct {
	State   string
	RunMode int
	Event   string
}
type Machine struct {
	Type         string // Go type of the machine struct
	Name         string
	InitialState string
	InitialEvent string
	Transitions  []Transition
	Auto         []AutoTr
	Callbacks    map[string]string // event -> method name
	FinStates    []string
}
type Out struct {
	Machines    []Machine
	PoolStates  map[string]string
	PoolEvents  map[string]string
	PoolEntry   map[string]string
	PoolInitial string
	// FromDumpErr[state]: error text of state_machines.FromDump on a minimal dump in that state ("" = loads)
	FromDumpErr map[string]string
}

func unexported(v reflect.Value) reflect.Value {
	return reflect.NewAt(v.Type(), unsafe.Pointer(v.UnsafeAddr())).Elem()
}

func dumpMachine(m interface{}) Machine {
	rv := reflect.ValueOf(m).Elem()
	out := Machine{Type: reflect.TypeOf(m).String(), Callbacks: map[string]string{}}
	f := rv.FieldByName("FSM").Elem() // fsm.FSM struct
	get := func(n string) reflect.Value { return unexported(f.FieldByName(n)) }
	out.Name = get("name").String()
	out.InitialState = get("initialState").String()
	out.InitialEvent = get("initialEvent").String()
	tr := get("transitions")
	for _, k := range tr.MapKeys() {
		kk := reflect.New(k.Type()).Elem()
		kk.Set(k)
		e := tr.MapIndex(k).Elem()
		ee := reflect.New(e.Type()).Elem()
		ee.Set(e)
		out.Transitions = append(out.Transitions, Transition{
			Source: unexported(kk.FieldByName("source")).String(), Event: unexported(kk.FieldByName("event")).String(),
			Dst: unexported(ee.FieldByName("dstState")).String(), Internal: unexported(ee.FieldByName("isInternal")).Bool(),
			Auto: unexported(ee.FieldByName("isAuto")).Bool(), RunMode: int(unexported(ee.FieldByName("runMode")).Uint()),
		})
		if unexported(ee.FieldByName("event")).String() != unexported(kk.FieldByName("event")).String() {
			panic("trEvent.event differs from its key")
		}
	}
	sort.Slice(out.Transitions, func(i, j int) bool {
		a, b := out.Transitions[i], out.Transitions[j]
		return a.Source+"|"+a.Event < b.Source+"|"+b.Event
	})
	at := get("autoTransitions")
	for _, k := range at.MapKeys() {
		kk := reflect.New(k.Type()).Elem()
		kk.Set(k)
		e := at.MapIndex(k).Elem()
		ee := reflect.New(e.Type()).Elem()
		ee.Set(e)
		out.Auto = append(out.Auto, AutoTr{State: unexported(kk.FieldByName("state")).String(), RunMode: int(unexported(kk.FieldByName("runMode")).Uint()), Event: unexported(ee.FieldByName("event")).String()})
	}
	sort.Slice(out.Auto, func(i, j int) bool { return out.Auto[i].State < out.Auto[j].State })
	cb := get("callbacks")
	for _, k := range cb.MapKeys() {
		fn := cb.MapIndex(k)
		name := runtime.FuncForPC(fn.Pointer()).Name()
		name = strings.TrimSuffix(name, "-fm")
		if i := strings.LastIndex(name, "."); i >= 0 {
			name = name[i+1:]
		}
		out.Callbacks[k.String()] = name
	}
	fs := get("finStates")
	for _, k := range fs.MapKeys() {
		out.FinStates = append(out.FinStates, k.String())
	}
	sort.Strings(out.FinStates)
	return out
}

func tryFromDump(state string) (res string) {
	defer func() {
		if r := recover(); r != nil {
			res = fmt.Sprintf("panic: %v", r)
		}
	}()
	dump, _ := json.Marshal(map[string]interface{}{"TransactionId": "round", "State": state, "Payload": map[string]interface{}{"DkgId": "round"}})
	inst, err := state_machines.FromDump(dump)
	if err != nil {
		return err.Error()
	}
	if st, err := inst.State(); err != nil || string(st) != state {
		return fmt.Sprintf("restored instance reports state %q, %v", st, err)
	}
	return ""
}

func main() {
	var o Out
	for _, m := range []interface{}{spf.New(), dpf.New(), sif.New()} {
		o.Machines = append(o.Machines, dumpMachine(m))
	}
	p := fsm_pool.Init(spf.New(), dpf.New(), sif.New())
	pv := reflect.ValueOf(p).Elem()
	o.PoolStates, o.PoolEvents, o.PoolEntry = map[string]string{}, map[string]string{}, map[string]string{}
	st := unexported(pv.FieldByName("states"))
	for _, k := range st.MapKeys() {
		o.PoolStates[k.String()] = st.MapIndex(k).String()
	}
	ev := unexported(pv.FieldByName("events"))
	for _, k := range ev.MapKeys() {
		o.PoolEvents[k.String()] = ev.MapIndex(k).String()
	}
	en := unexported(pv.FieldByName("entryEvents"))
	for _, k := range en.MapKeys() {
		o.PoolEntry[k.String()] = en.MapIndex(k).String()
	}
	o.PoolInitial = unexported(pv.FieldByName("fsmInitialEvent")).String()
	o.FromDumpErr = map[string]string{}
	for _, m := range o.Machines {
		for _, t := range m.Transitions {
			for _, s := range []string{t.Source, t.Dst} {
				if _, done := o.FromDumpErr[s]; done {
					continue
				}
				o.FromDumpErr[s] = tryFromDump(s)
			}
		}
	}
	b, _ := json.MarshalIndent(o, "", " ")
	fmt.Fprintln(os.Stdout, string(b))
}
