#!/usr/bin/env python3
"""Writes /repo/fsm/fsm/contracts_dkg_verif.go and contracts_sig_verif.go: the behaviours of
(*fsm.FSM).Do for the DKG and the invitation machine, instantiated per event from one template
per event shape (the files written are what gocv reads)."""

HDR = '''//go:build verif

package fsm

// Behaviours of (*FSM).Do for the %s machine (written by /verif/tools/gen_do_contracts.py).
//
'''

phases = [
 dict(n="Commit", ev="dpf.EventDKGCommitConfirmationReceived", errev="dpf.EventDKGCommitConfirmationError", st="dpf.StateDkgCommitsAwaitConfirmations", nx="dpf.StateDkgDealsAwaitConfirmations",
      cerr="dpf.StateDkgCommitsAwaitCanceledByError", ctmo="dpf.StateDkgCommitsAwaitCanceledByTimeout", aw="CommitAwaitConfirmation", ok="CommitConfirmed", er="CommitConfirmationError",
      act="actionCommitConfirmationReceived", val="actionValidateDkgProposalAwaitCommits", req="Commit"),
 dict(n="Deal", ev="dpf.EventDKGDealConfirmationReceived", errev="dpf.EventDKGDealConfirmationError", st="dpf.StateDkgDealsAwaitConfirmations", nx="dpf.StateDkgResponsesAwaitConfirmations",
      cerr="dpf.StateDkgDealsAwaitCanceledByError", ctmo="dpf.StateDkgDealsAwaitCanceledByTimeout", aw="DealAwaitConfirmation", ok="DealConfirmed", er="DealConfirmationError",
      act="actionDealConfirmationReceived", val="actionValidateDkgProposalAwaitDeals", req="Deal"),
 dict(n="Response", ev="dpf.EventDKGResponseConfirmationReceived", errev="dpf.EventDKGResponseConfirmationError", st="dpf.StateDkgResponsesAwaitConfirmations", nx="dpf.StateDkgMasterKeyAwaitConfirmations",
      cerr="dpf.StateDkgResponsesAwaitCanceledByError", ctmo="dpf.StateDkgResponsesAwaitCanceledByTimeout", aw="ResponseAwaitConfirmation", ok="ResponseConfirmed", er="ResponseConfirmationError",
      act="actionResponseConfirmationReceived", val="actionValidateDkgProposalAwaitResponses", req="Response"),
 dict(n="MasterKey", ev="dpf.EventDKGMasterKeyConfirmationReceived", errev="dpf.EventDKGMasterKeyConfirmationError", st="dpf.StateDkgMasterKeyAwaitConfirmations", nx="dpf.StateDkgMasterKeyCollected",
      cerr="dpf.StateDkgMasterKeyAwaitCanceledByError", ctmo="dpf.StateDkgMasterKeyAwaitCanceledByTimeout", aw="MasterKeyAwaitConfirmation", ok="MasterKeyConfirmed", er="MasterKeyConfirmationError",
      act="actionMasterKeyConfirmationReceived", val="actionValidateDkgProposalAwaitMasterKey", req="MasterKey"),
]

def common(inv):
    return '''//@   ensures[C05.reject.dkg,C18.reject.dkg] err != nil ==> dkgRejectNoop(f)
//@   ensures[C05.resp] err == nil ==> resp != nil && resp.State == f.currentState
//@   ensures[C05.resp.reject] resp != nil ==> resp.State == f.currentState
//@   ensures[C05.inv.table] invDkgTable(f)
//@   ensures[C05.inv.sig] invDkgSig(f)
//@   ensures[C05.inv.state] invDkgState(f)
//@   ensures[C05.inv.wf] invDkgWf(f)
//@   ensures[C05.inv.inj] invDkgInj(f)
//@   ensures[C05.inv.phase] invDkgPhase(f)
//@   ensures[C05.absorbing] dkgCancelled(old(f.currentState)) ==> dkgCancelled(f.currentState)
//@   ensures[C05.ready] f.currentState == dpf.StateDkgMasterKeyCollected ==> old(f.currentState) == dpf.StateDkgMasterKeyAwaitConfirmations || old(f.currentState) == dpf.StateDkgMasterKeyCollected
'''

out = [HDR % "DKG"]
w = out.append
w('''//@ import dpf "github.com/lidofinance/dc4bc/fsm/state_machines/dkg_proposal_fsm"
//@ import internal "github.com/lidofinance/dc4bc/fsm/state_machines/internal"
//@ import requests "github.com/lidofinance/dc4bc/fsm/types/requests"
//
//@ spec func dkgM(f *FSM) *dpf.DKGProposalFSM = machOf(f, "dkg_proposal_fsm")
//@ spec func dkgCancelled(s State) bool = ''' + " || ".join("s == %s || s == %s" % (p["cerr"], p["ctmo"]) for p in phases) + '''
//@ spec func dkgAwait(s State) bool = ''' + " || ".join("s == %s" % p["st"] for p in phases) + '''
//@ spec func dkgStage(s State) bool = dkgAwait(s) || dkgCancelled(s) || s == dpf.StateDkgMasterKeyCollected
//@ spec func invDkgTable(f *FSM) bool = machineTable(f, "dkg_proposal_fsm", dkgM(f)) && dkgM(f).FSM == f && dkgM(f).payload != nil
//@ spec func invDkgSig(f *FSM) bool = wfSigQ(dkgM(f).payload) && (0 in sigQ(dkgM(f).payload)) && injSig(sigQ(dkgM(f).payload))
//@ spec func invDkgState(f *FSM) bool = f.currentState == dpf.StateDkgInitial || dkgStage(f.currentState)
//@ spec func invDkgWf(f *FSM) bool = (dkgStage(f.currentState) ==> wfDkgQ(dkgM(f).payload) && dkgQ(dkgM(f).payload) != nil) && (dkgM(f).payload.DKGProposalPayload != nil ==> wfDkgQ(dkgM(f).payload)) && (f.currentState == dpf.StateDkgInitial ==> dkgM(f).payload.DKGProposalPayload == nil)
//@ spec func invDkgInj(f *FSM) bool = dkgM(f).payload.DKGProposalPayload != nil ==> injDkg(dkgQ(dkgM(f).payload))
// phase / status coupling: while a phase is awaited every participant is awaiting or confirmed in that phase
//@ spec func awOf(s State) internal.DKGParticipantStatus = ite(s == dpf.StateDkgCommitsAwaitConfirmations, internal.CommitAwaitConfirmation, ite(s == dpf.StateDkgDealsAwaitConfirmations, internal.DealAwaitConfirmation, ite(s == dpf.StateDkgResponsesAwaitConfirmations, internal.ResponseAwaitConfirmation, internal.MasterKeyAwaitConfirmation)))
//@ spec func okOf(s State) internal.DKGParticipantStatus = ite(s == dpf.StateDkgCommitsAwaitConfirmations, internal.CommitConfirmed, ite(s == dpf.StateDkgDealsAwaitConfirmations, internal.DealConfirmed, ite(s == dpf.StateDkgResponsesAwaitConfirmations, internal.ResponseConfirmed, internal.MasterKeyConfirmed)))
//   (needed where the table has no transition for the validator's cancel-by-error outcome: commits, deals, responses)
//@ spec func invDkgPhase(f *FSM) bool = (f.currentState == dpf.StateDkgCommitsAwaitConfirmations || f.currentState == dpf.StateDkgDealsAwaitConfirmations || f.currentState == dpf.StateDkgResponsesAwaitConfirmations) ==> dkgPhaseOk(dkgM(f).payload, awOf(f.currentState), okOf(f.currentState))
//@ spec func invDkg(f *FSM) bool = invDkgTable(f) && invDkgSig(f) && invDkgState(f) && invDkgWf(f) && invDkgInj(f) && invDkgPhase(f)
//@ spec func dkgRejectNoop(f *FSM) bool = f.currentState == old(f.currentState) && (old(dkgM(f).payload.DKGProposalPayload) != nil ==> dkgViewsSame(dkgM(f)))

//@ func (*FSM).Do behavior dkg.init
//@   safety C18
//@   fvtargets DKGProposalFSM).actionInitDKGProposal DKGProposalFSM).actionValidateDkgProposalAwaitCommits
//@   requires f != nil && invDkg(f) && event == dpf.EventDKGInitProcess
''' + common("dkg") + '''//@   ensures[C05.handover.dkg] err == nil ==> old(f.currentState) == dpf.StateDkgInitial && (f.currentState == dpf.StateDkgCommitsAwaitConfirmations || dkgCancelled(f.currentState) || f.currentState == dpf.StateDkgDealsAwaitConfirmations)
''')
for p in phases:
    w('''
//@ func (*FSM).Do behavior dkg.%(n)s
//@   safety C18
//@   fvtargets DKGProposalFSM).%(act)s DKGProposalFSM).%(val)s
//@   requires f != nil && invDkg(f) && event == %(ev)s
''' % p + common("dkg") + '''//@   ensures[C05.once.%(n)s,C10.once.%(n)s] err == nil ==> old(f.currentState) == %(st)s && is%(req)sReq(args) && old(rq%(req)s(args).ParticipantId in dkgQ(dkgM(f).payload)) && old(dkgQ(dkgM(f).payload)[rq%(req)s(args).ParticipantId].Status) == internal.%(aw)s
//@   ensures[C05.next.%(n)s] err == nil ==> f.currentState == %(st)s || f.currentState == %(nx)s || f.currentState == %(cerr)s || f.currentState == %(ctmo)s
//@   ensures[C05.unanimous.%(n)s] err == nil && f.currentState == %(nx)s ==> old(dkgCnt(dkgM(f).payload, internal.%(ok)s)) + 1 == old(len(dkgQ(dkgM(f).payload)))
//@   ensures[C05.twice.%(n)s] is%(req)sReq(args) && old(dkgM(f).payload.DKGProposalPayload) != nil && old(rq%(req)s(args).ParticipantId in dkgQ(dkgM(f).payload)) && old(dkgQ(dkgM(f).payload)[rq%(req)s(args).ParticipantId].Status) != internal.%(aw)s ==> err != nil
''' % p)
    w('''
//@ func (*FSM).Do behavior dkg.%(n)sError
//@   safety C18
//@   fvtargets DKGProposalFSM).actionConfirmationError DKGProposalFSM).%(val)s
//@   requires f != nil && invDkg(f) && event == %(errev)s
''' % p + common("dkg") + '''//@   ensures[C05.causes.error.%(n)s] err == nil ==> (old(f.currentState) == %(st)s || old(f.currentState) == %(cerr)s) && (f.currentState == %(cerr)s || f.currentState == %(ctmo)s)
''' % p)
w('''
// every other event, and the internal ones, are refused by the DKG machine
//@ func (*FSM).Do behavior dkg.other
//@   safety C18
//@   fvtargets DKGProposalFSM).
//@   requires f != nil && invDkg(f) && event != dpf.EventDKGInitProcess && ''' + " && ".join("event != %s && event != %s" % (p["ev"], p["errev"]) for p in phases) + '''
//@   ensures[C05.reject.dkg,C18.reject.dkg] err != nil && dkgRejectNoop(f) && resp == nil
//@   ensures[C05.inv.table] invDkgTable(f)
//@   ensures[C05.inv.sig] invDkgSig(f)
//@   ensures[C05.inv.state] invDkgState(f)
//@   ensures[C05.inv.wf] invDkgWf(f)
//@   ensures[C05.inv.inj] invDkgInj(f)
//@   ensures[C05.inv.phase] invDkgPhase(f)
''')
open('/repo/fsm/fsm/contracts_dkg_verif.go', 'w').write("".join(out))

# ---- invitation machine
out = [HDR % "signature-proposal (invitation)"]
w = out.append
w('''//@ import spf "github.com/lidofinance/dc4bc/fsm/state_machines/signature_proposal_fsm"
//@ import internal "github.com/lidofinance/dc4bc/fsm/state_machines/internal"
//@ import requests "github.com/lidofinance/dc4bc/fsm/types/requests"
//
//@ spec func sigM(f *FSM) *spf.SignatureProposalFSM = machOf(f, "signature_proposal_fsm")
//@ spec func sigCancelled(s State) bool = s == spf.StateValidationCanceledByParticipant || s == spf.StateValidationCanceledByTimeout
//@ spec func sigStage(s State) bool = s == spf.StateAwaitParticipantsConfirmations || sigCancelled(s) || s == spf.StateSignatureProposalCollected
//@ spec func invSigTable(f *FSM) bool = machineTable(f, "signature_proposal_fsm", sigM(f)) && sigM(f).FSM == f && sigM(f).payload != nil
//@ spec func invSigState(f *FSM) bool = f.currentState == StateGlobalIdle || sigStage(f.currentState)
//@ spec func invSigWf(f *FSM) bool = sigStage(f.currentState) ==> wfSigQ(sigM(f).payload) && sigQ(sigM(f).payload) != nil
//@ spec func invSig(f *FSM) bool = invSigTable(f) && invSigState(f) && invSigWf(f)
//@ spec func sigRejectNoop(f *FSM) bool = f.currentState == old(f.currentState) && sigViewsSame(sigM(f))
''')
sigcommon = '''//@   ensures[C05.reject.sig,C18.reject.sig] err != nil ==> sigRejectNoop(f)
//@   ensures[C05.resp] err == nil ==> resp != nil && resp.State == f.currentState
//@   ensures[C05.resp.reject] resp != nil ==> resp.State == f.currentState
//@   ensures[C05.inv.table] invSigTable(f)
//@   ensures[C05.inv.state] invSigState(f)
//@   ensures[C05.inv.wf] invSigWf(f)
//@   ensures[C05.absorbing] sigCancelled(old(f.currentState)) ==> sigCancelled(f.currentState)
'''
w('''
//@ func (*FSM).Do behavior sig.init
//@   safety C18
//@   fvtargets SignatureProposalFSM).actionInitSignatureProposal SignatureProposalFSM).actionValidateSignatureProposal
//@   requires f != nil && invSig(f) && event == spf.EventInitProposal
''' + sigcommon + '''//@   ensures[C05.open] err == nil ==> old(f.currentState) == StateGlobalIdle && (f.currentState == spf.StateAwaitParticipantsConfirmations || sigCancelled(f.currentState))
''')
for (n, ev, newst) in [("confirm", "spf.EventConfirmSignatureProposal", "SigConfirmationConfirmed"), ("decline", "spf.EventDeclineProposal", "SigConfirmationDeclined")]:
    w('''
//@ func (*FSM).Do behavior sig.%s
//@   safety C18
//@   fvtargets SignatureProposalFSM).actionProposalResponseByParticipant SignatureProposalFSM).actionValidateSignatureProposal
//@   requires f != nil && invSig(f) && event == %s
''' % (n, ev) + sigcommon + '''//@   ensures[C05.once.%s,C10.once.%s] err == nil ==> old(f.currentState) == spf.StateAwaitParticipantsConfirmations && isPartReq(args) && old(partReq(args).ParticipantId in sigQ(sigM(f).payload))
//@   ensures[C05.next.%s] err == nil ==> f.currentState == spf.StateAwaitParticipantsConfirmations || f.currentState == spf.StateSignatureProposalCollected || sigCancelled(f.currentState)
''' % (n, n, n) + ('''//@   ensures[C05.causes.decline] err == nil ==> f.currentState != spf.StateSignatureProposalCollected
''' if n == "decline" else '''//@   ensures[C05.unanimous.invite] err == nil && f.currentState == spf.StateSignatureProposalCollected ==> old(sigQ(sigM(f).payload)[partReq(args).ParticipantId].Status) == internal.SigConfirmationAwaitConfirmation
'''))
w('''
//@ func (*FSM).Do behavior sig.other
//@   safety C18
//@   fvtargets SignatureProposalFSM).
//@   requires f != nil && invSig(f) && event != spf.EventInitProposal && event != spf.EventConfirmSignatureProposal && event != spf.EventDeclineProposal
//@   ensures[C05.reject.sig,C18.reject.sig] err != nil && sigRejectNoop(f) && resp == nil
//@   ensures[C05.inv.table] invSigTable(f)
//@   ensures[C05.inv.state] invSigState(f)
//@   ensures[C05.inv.wf] invSigWf(f)
''')
open('/repo/fsm/fsm/contracts_sig_verif.go', 'w').write("".join(out))
print("ok")
