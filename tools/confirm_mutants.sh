#!/bin/bash
# Confirms seeded mutants: for each /verif/seeded/<id>: in a scratch worktree of /repo HEAD
#  (1) the demo passes without the patch, (2) the patch applies and builds, (3) the demo fails with it,
#  (4) the stable baseline tests (all packages except the flaky ./client flow tests) still pass with it.
# Writes /verif/seeded/<id>/confirm.log and a one-line verdict to stdout.
export GOFLAGS=-mod=mod GOPROXY=off GOSUMDB=off GOTOOLCHAIN=local
cd /repo || exit 2
for d in "$@"; do
  id=$(basename "$d")
  wt=/tmp/mw_$id
  log=$d/confirm.log
  : > "$log"
  git worktree remove --force "$wt" >/dev/null 2>&1
  git worktree add -q --detach "$wt" HEAD >>"$log" 2>&1 || { echo "$id: worktree failed"; continue; }
  # where does the demo go?  header: "copy ... to <path>_test.go" or "into <dir>/"
  demo=$d/demo_test.go
  tgt=$(head -1 "$demo" | sed -nE 's|^// *[Cc]op[a-z]* to `?([A-Za-z0-9_.-]+(/[A-Za-z0-9_.-]+)*)/.*|\1/|p')
  [ -z "$tgt" ] && tgt=$(grep -m1 -oE '(copy|Copy|copied|Copied)[^`]*`?[A-Za-z0-9_/.-]+/' "$demo" | grep -oE '[A-Za-z0-9_.-]+(/[A-Za-z0-9_.-]+)*/$' | tail -1)
  [ -z "$tgt" ] && tgt=$(grep -m1 -oE '(airgapped|client|fsm|storage|pkg|dkg|cmd)(/[A-Za-z0-9_]+)*/' "$demo" | head -1)
  pkgline=$(grep -m1 '^package ' "$demo" | awk '{print $2}')
  tgt=${tgt%/}
  run=$(grep -m1 -oE "\-run ['\"]?[A-Za-z0-9_|()^$.*]+" "$demo" | sed "s/-run //; s/['\"]//g")
  [ -z "$run" ] && run=.
  echo "target dir: $tgt  package: $pkgline  run: $run" >>"$log"
  if [ ! -d "$wt/$tgt" ]; then echo "$id: cannot determine demo dir ($tgt)"; git worktree remove --force "$wt"; continue; fi
  cp "$demo" "$wt/$tgt/zz_seeded_demo_test.go"
  ( cd "$wt" && timeout 900 go test -vet=off -count=1 -run "$run" "./$tgt/" ) >>"$log" 2>&1; r1=$?
  ( cd "$wt" && git apply "$d/patch.diff" ) >>"$log" 2>&1 || { echo "$id: patch does not apply"; git worktree remove --force "$wt"; continue; }
  ( cd "$wt" && go build ./... ) >>"$log" 2>&1; rb=$?
  ( cd "$wt" && timeout 900 go test -vet=off -count=1 -run "$run" "./$tgt/" ) >>"$log" 2>&1; r2=$?
  rm -f "$wt/$tgt/zz_seeded_demo_test.go"
  pk=$(cd "$wt" && go list ./... | grep -v '/dc4bc/client$')
  ( cd "$wt" && timeout 1500 go test -p 2 -vet=off -count=1 $pk ) >"$d/baseline_with_patch.log" 2>&1; r3=$?
  grep -E "^(FAIL|---)" "$d/baseline_with_patch.log" | head -5 >>"$log"
  echo "$id: demo_without=$r1 build=$rb demo_with=$r2 baseline_with=$r3" | tee -a "$log"
  git worktree remove --force "$wt" >/dev/null 2>&1
done
