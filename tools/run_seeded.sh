#!/bin/bash
# Runs every seeded change in /verif/seeded against the checks, on scratch copies (a git worktree of /repo's
# HEAD and a copy of /verif), so that /repo itself is never touched. Usage: run_seeded.sh <outfile> [props...]
# For each change: its own property plus the listed properties. One line per (change, property).
OUT=${1:-/verif/seeded/matrix.txt}; shift
EXTRA="$@"
export GOFLAGS=-mod=mod GOPROXY=off GOSUMDB=off GOTOOLCHAIN=local
S=/tmp/mutrun
rm -rf $S; mkdir -p $S
git -C /repo worktree prune
git -C /repo worktree add --detach $S/repo HEAD >/dev/null 2>&1 || { echo "cannot create worktree"; exit 2; }
rsync -a --exclude work --exclude replays --exclude .git /verif/ $S/verif/
: > $OUT
for d in /verif/seeded/*/; do
  id=$(basename $d); own=${id%%-*}
  git -C $S/repo apply $d/patch.diff || { echo "$id patch-does-not-apply" >> $OUT; continue; }
  for p in $own $EXTRA; do
    [ "$p" = "$own" ] && [ -n "$(echo $EXTRA | tr ' ' '\n' | grep -x $own)" ] && [ "$p" != "$own" ] && continue
    grep -q "\"$p\"" $S/verif/baseline/obligations.json || { echo "$id $p no-check" >> $OUT; continue; }
    $S/verif/bin/gocv check -prop $p -tier quick -repo $S/repo -verif $S/verif > $S/out.txt 2>&1; rc=$?
    v=$(grep -c "^VIOLATION" $S/out.txt); u=$(grep -c "^UNDECIDED" $S/out.txt)
    echo "$id $p exit=$rc violations=$v undecided=$u $(grep -m1 '^VIOLATION' $S/out.txt | sed 's/.*replay=[^ ]*replays\///' | cut -c1-120)" >> $OUT
  done
  git -C $S/repo checkout -q -- . ; git -C $S/repo clean -fdq
done
git -C /repo worktree remove --force $S/repo
rm -rf $S
echo done >> $OUT
