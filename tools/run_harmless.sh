#!/bin/bash
# Must-stay-quiet self-test: every diff in /verif/harmless is a behaviour-preserving edit; applied to a scratch
# worktree of /repo's HEAD, every claimed check must still exit 0. Usage: run_harmless.sh [outfile] [props...]
OUT=${1:-/verif/harmless/results.txt}; shift
PROPS=${@:-C02 C03 C04 C05 C06 C08 C09 C10 C11 C12 C13 C15 C16 C17 C18 C19 C20}
export GOFLAGS=-mod=mod GOPROXY=off GOSUMDB=off GOTOOLCHAIN=local
S=/tmp/harmlessrun
rm -rf $S; mkdir -p $S
git -C /repo worktree prune
git -C /repo worktree add --detach $S/repo HEAD >/dev/null 2>&1 || { echo "cannot create worktree"; exit 2; }
rsync -a --exclude work --exclude replays --exclude .git /verif/ $S/verif/
: > $OUT
bad=0
for f in /verif/harmless/*.diff; do
  n=$(basename $f .diff)
  git -C $S/repo apply $f || { echo "$n patch-does-not-apply" >> $OUT; bad=1; continue; }
  (cd $S/repo && go build ./... ) >/dev/null 2>&1 || { echo "$n does-not-build" >> $OUT; bad=1; }
  for p in $PROPS; do
    $S/verif/bin/gocv check -prop $p -tier quick -repo $S/repo -verif $S/verif > $S/out.txt 2>&1; rc=$?
    [ $rc -ne 0 ] && { bad=1; echo "$n $p ALARM exit=$rc $(grep -m1 '^VIOLATION\|^UNDECIDED\|^ENGINE' $S/out.txt | cut -c1-160)" >> $OUT; } || echo "$n $p quiet" >> $OUT
  done
  git -C $S/repo checkout -q -- . ; git -C $S/repo clean -fdq
done
git -C /repo worktree remove --force $S/repo
rm -rf $S
echo "done bad=$bad" >> $OUT
exit $bad
