#!/usr/bin/env python3
"""Writes /repo/fsm/state_machines/dkg_proposal_fsm/contracts_verif.go: the four confirmation
actions, the four validators and the error action follow one shape each, so their contracts are
instantiated from templates (the file written is the one gocv reads; nothing else is generated)."""
import textwrap

PKG = "/repo/fsm/state_machines/dkg_proposal_fsm/contracts_verif.go"
P = "internal.DKGProposalParticipant"

phases = [
 # name, request type, data field in request, data field in participant, await, confirmed, error, validate fn, timeout evt, error evt, confirmed evt, next await
 dict(uv="unconfirmedParticipants", n="Commit", req="DKGProposalCommitConfirmationRequest", rf="Commit", pf="DkgCommit", aw="CommitAwaitConfirmation", ok="CommitConfirmed", er="CommitConfirmationError",
      act="actionCommitConfirmationReceived", val="actionValidateDkgProposalAwaitCommits", tmo="eventDKGCommitsConfirmationCancelByTimeoutInternal", cerr="eventDKGCommitsConfirmationCancelByErrorInternal", conf="eventDKGCommitsConfirmedInternal", nxt="DealAwaitConfirmation", rt="DKGProposalCommitParticipantResponse", errevt="EventDKGCommitConfirmationError"),
 dict(uv="unconfirmedDealsParticipants", n="Deal", req="DKGProposalDealConfirmationRequest", rf="Deal", pf="DkgDeal", aw="DealAwaitConfirmation", ok="DealConfirmed", er="DealConfirmationError",
      act="actionDealConfirmationReceived", val="actionValidateDkgProposalAwaitDeals", tmo="eventDKGDealsConfirmationCancelByTimeoutInternal", cerr="eventDKGDealsConfirmationCancelByErrorInternal", conf="eventDKGDealsConfirmedInternal", nxt="ResponseAwaitConfirmation", rt="DKGProposalDealParticipantResponse", errevt="EventDKGDealConfirmationError"),
 dict(uv="unconfirmedParticipants", n="Response", req="DKGProposalResponseConfirmationRequest", rf="Response", pf="DkgResponse", aw="ResponseAwaitConfirmation", ok="ResponseConfirmed", er="ResponseConfirmationError",
      act="actionResponseConfirmationReceived", val="actionValidateDkgProposalAwaitResponses", tmo="eventDKGResponseConfirmationCancelByTimeoutInternal", cerr="eventDKGResponseConfirmationCancelByErrorInternal", conf="eventDKGResponsesConfirmedInternal", nxt="MasterKeyAwaitConfirmation", rt="DKGProposalResponseParticipantResponse", errevt="EventDKGResponseConfirmationError"),
 dict(uv="unconfirmedParticipants", n="MasterKey", req="DKGProposalMasterKeyConfirmationRequest", rf="MasterKey", pf="DkgMasterKey", aw="MasterKeyAwaitConfirmation", ok="MasterKeyConfirmed", er="MasterKeyConfirmationError",
      act="actionMasterKeyConfirmationReceived", val="actionValidateDkgProposalAwaitMasterKey", tmo="eventDKGMasterKeyConfirmationCancelByTimeoutInternal", cerr="eventDKGMasterKeyConfirmationCancelByErrorInternal", conf="eventDKGMasterKeyConfirmedInternal", nxt=None, errevt="EventDKGMasterKeyConfirmationError"),
]
datafields = ["DkgCommit", "DkgDeal", "DkgResponse", "DkgMasterKey"]

MK = """
// ---- the master-key validator: all announced group keys must agree
//@ spec func mkOf(m *DKGProposalFSM, k int) []byte = dkgQ(m.payload)[k].DkgMasterKey
//@ spec func sameKey(a []byte, b []byte) bool = content(a) == content(b) && ((a == nil) == (b == nil))
//@   loop 0 invariant isContainsError == (exists k int :: (k in $visited) && dkgQ(m.payload)[k].Status == internal.MasterKeyConfirmationError)
//@   loop 0 invariant unconfirmedParticipants == len(dkgQ(m.payload)) - cntSt($visited, vals(dkgQ(m.payload)), fieldmap(internal.DKGProposalParticipant.Status), internal.MasterKeyConfirmed)
//@   loop 0 invariant forall k int :: (k in $visited) && dkgQ(m.payload)[k].Status == internal.MasterKeyConfirmed ==> (exists i int :: 0 <= i && i < len(masterKeys) && masterKeys[i] == mkOf(m, k))
//@   loop 0 invariant forall i int :: 0 <= i && i < len(masterKeys) ==> (exists k int :: (k in $visited) && dkgQ(m.payload)[k].Status == internal.MasterKeyConfirmed && masterKeys[i] == mkOf(m, k))
//@   loop 0 invariant len(masterKeys) == 0 || fresh(masterKeys)
//@   loop 1 invariant forall j int :: 0 <= j && j <= $i ==> sameKey(masterKeys[j], masterKeys[0])
//@   loop 1 invariant dkgViewsSame(m)
//@   loop 2 invariant forall k int :: k in $visited ==> dkgQ(m.payload)[k].Status == internal.MasterKeyConfirmationError
//@   loop 2 invariant unchanged("*internal.DumpedMachineStatePayload", "*internal.DKGConfirmation", "*internal.SignatureConfirmation", "map[int]*internal.DKGProposalParticipant", internal.DKGProposalParticipant.DkgCommit, internal.DKGProposalParticipant.DkgDeal, internal.DKGProposalParticipant.DkgResponse, internal.DKGProposalParticipant.DkgMasterKey, internal.DKGProposalParticipant.Username, "[]byte")
//@   loop 3 invariant forall k int :: k in $visited ==> dkgQ(m.payload)[k].Status == internal.MasterKeyConfirmed
//@   loop 3 invariant unchanged("*internal.DumpedMachineStatePayload", "*internal.DKGConfirmation", "*internal.SignatureConfirmation", "map[int]*internal.DKGProposalParticipant", internal.DKGProposalParticipant.DkgCommit, internal.DKGProposalParticipant.DkgDeal, internal.DKGProposalParticipant.DkgResponse, internal.DKGProposalParticipant.DkgMasterKey, internal.DKGProposalParticipant.Error, internal.DKGProposalParticipant.Username, "[]byte")
//@   ensures[C05.mkmismatch,C02.mismatch] !old(dkgExpired(m)) && !old(dkgAny(m.payload, internal.MasterKeyConfirmationError)) && old(exists a int, b int :: (a in dkgQ(m.payload)) && (b in dkgQ(m.payload)) && dkgQ(m.payload)[a].Status == internal.MasterKeyConfirmed && dkgQ(m.payload)[b].Status == internal.MasterKeyConfirmed && !sameKey(mkOf(m, a), mkOf(m, b))) ==> outEvent == eventDKGMasterKeyConfirmationCancelByErrorInternal && (forall k int :: k in dkgQ(m.payload) ==> dkgQ(m.payload)[k].Status == internal.MasterKeyConfirmationError)
//@   ensures[C05.outs] outEvent == "" || outEvent == eventDKGMasterKeyConfirmationCancelByTimeoutInternal || outEvent == eventDKGMasterKeyConfirmationCancelByErrorInternal || outEvent == eventDKGMasterKeyConfirmedInternal
//@   ensures[C05.phasekeep] outEvent == "" && old(dkgPhaseOk(m.payload, internal.MasterKeyAwaitConfirmation, internal.MasterKeyConfirmed)) ==> dkgPhaseOk(m.payload, internal.MasterKeyAwaitConfirmation, internal.MasterKeyConfirmed)
//@   ensures[C05.mkwait.same] outEvent == "" ==> dkgViewsSame(m)
//@   ensures[C05.mkwait] !old(dkgExpired(m)) && !old(dkgAny(m.payload, internal.MasterKeyConfirmationError)) && outEvent == "" ==> old(dkgCnt(m.payload, internal.MasterKeyConfirmed)) < old(len(dkgQ(m.payload))) && dkgViewsSame(m)
//@   ensures[C05.advance] !old(dkgExpired(m)) && !old(dkgAny(m.payload, internal.MasterKeyConfirmationError)) && old(dkgCnt(m.payload, internal.MasterKeyConfirmed)) == old(len(dkgQ(m.payload))) && old(forall a int, b int :: (a in dkgQ(m.payload)) && (b in dkgQ(m.payload)) ==> sameKey(mkOf(m, a), mkOf(m, b))) ==> outEvent == eventDKGMasterKeyConfirmedInternal
//@   ensures[C02.agree,C05.mkagree] outEvent == eventDKGMasterKeyConfirmedInternal ==> old(dkgCnt(m.payload, internal.MasterKeyConfirmed)) == old(len(dkgQ(m.payload))) && (forall a int, b int :: (a in dkgQ(m.payload)) && (b in dkgQ(m.payload)) ==> sameKey(mkOf(m, a), mkOf(m, b)))
//@   ensures[C05.keep] response == nil && unchanged("*internal.DumpedMachineStatePayload", "*internal.DKGConfirmation", "*internal.SignatureConfirmation", "map[int]*internal.DKGProposalParticipant", internal.DKGProposalParticipant.DkgCommit, internal.DKGProposalParticipant.DkgDeal, internal.DKGProposalParticipant.DkgResponse, internal.DKGProposalParticipant.DkgMasterKey, internal.DKGProposalParticipant.Username, "[]byte")
"""

ERRACT = """
// ---- error reports: the phase's error event turns an awaiting participant into its error status
//@ spec func isDkgErrReq(args []interface{}) bool = len(args) == 1 && istype(args[0], requests.DKGProposalConfirmationErrorRequest)
//@ spec func rqDkgErr(args []interface{}) requests.DKGProposalConfirmationErrorRequest = args[0].(requests.DKGProposalConfirmationErrorRequest)
//@ spec func errPhase(ev fsm.Event, before internal.DKGParticipantStatus, after internal.DKGParticipantStatus) bool = (ev == EventDKGCommitConfirmationError && before == internal.CommitAwaitConfirmation && after == internal.CommitConfirmationError) || (ev == EventDKGDealConfirmationError && before == internal.DealAwaitConfirmation && after == internal.DealConfirmationError) || (ev == EventDKGResponseConfirmationError && before == internal.ResponseAwaitConfirmation && after == internal.ResponseConfirmationError) || (ev == EventDKGMasterKeyConfirmationError && before == internal.MasterKeyAwaitConfirmation && after == internal.MasterKeyConfirmationError)

//@ func (*DKGProposalFSM).actionConfirmationError
//@   safety C18
//@   requires wfDkg(m)
//@   ensures[C05.reject,C18.reject] err != nil ==> dkgViewsSame(m)
//@   ensures[C05.shape] outEvent == "" && response == nil
//@   ensures[C05.errreport] err == nil ==> isDkgErrReq(args) && old(rqDkgErr(args).ParticipantId in dkgQ(m.payload)) && errPhase(inEvent, old(dkgQ(m.payload)[rqDkgErr(args).ParticipantId].Status), dkgQ(m.payload)[rqDkgErr(args).ParticipantId].Status) && dkgQ(m.payload)[rqDkgErr(args).ParticipantId].Error == rqDkgErr(args).Error && rqDkgErr(args).Error != nil
//@   ensures[C05.frame,C10.frame] err == nil ==> dkgOthersSame(m, rqDkgErr(args).ParticipantId) && unchanged("[]byte", internal.DKGProposalParticipant.DkgCommit, internal.DKGProposalParticipant.DkgDeal, internal.DKGProposalParticipant.DkgResponse, internal.DKGProposalParticipant.DkgMasterKey)

// ---- start of the DKG: one awaiting record per invited participant
//@ func (*DKGProposalFSM).actionInitDKGProposal
//@   safety C18
//@   requires m != nil && m.payload != nil && wfSigQ(m.payload) && (0 in sigQ(m.payload)) && injSig(sigQ(m.payload))
//@   requires m.payload.DKGProposalPayload != nil ==> wfDkgQ(m.payload)
//@   ensures[C05.initnoop] old(m.payload.DKGProposalPayload) != nil ==> err == nil && outEvent == "" && response == nil && dkgViewsSame(m)
//@   ensures[C05.reject,C18.reject] err != nil ==> dkgViewsSame(m)
//@   ensures[C05.initdkg] old(m.payload.DKGProposalPayload) == nil && err == nil ==> outEvent == inEvent && dp(m) != nil && fresh(dp(m)) && dkgQ(m.payload) != nil && dom(dkgQ(m.payload)) == old(dom(sigQ(m.payload))) && (forall k int :: k in dkgQ(m.payload) ==> dkgQ(m.payload)[k] != nil && dkgQ(m.payload)[k].Status == internal.CommitAwaitConfirmation && dkgQ(m.payload)[k].Username == old(sigQ(m.payload)[k].Username) && dkgQ(m.payload)[k].Error == nil)
//@   ensures[C05.initdkg.inj] old(m.payload.DKGProposalPayload) == nil && err == nil ==> injDkg(dkgQ(m.payload)) && dkgPhaseOk(m.payload, internal.CommitAwaitConfirmation, internal.CommitConfirmed) && !dkgAny(m.payload, internal.CommitConfirmationError) && wfDkgQ(m.payload)
//@   ensures[C05.keep] unchanged("*internal.SignatureConfirmation", "*internal.SignatureProposalParticipant", "map[int]*internal.SignatureProposalParticipant") && m.payload.Threshold == old(m.payload.Threshold) && m.payload.SigningProposalPayload == old(m.payload.SigningProposalPayload) && m.payload.SignatureProposalPayload == old(m.payload.SignatureProposalPayload)
//@   loop 0 invariant dp(m) != nil && fresh(dp(m)) && dkgQ(m.payload) != nil && fresh(dkgQ(m.payload))
//@   loop 0 invariant dom(dkgQ(m.payload)) == $visited
//@   loop 0 invariant forall k int :: k in $visited ==> dkgQ(m.payload)[k] != nil && fresh(dkgQ(m.payload)[k]) && allocated(dkgQ(m.payload)[k]) && dkgQ(m.payload)[k].Status == internal.CommitAwaitConfirmation && dkgQ(m.payload)[k].Username == old(sigQ(m.payload)[k].Username) && dkgQ(m.payload)[k].Error == nil
//@   loop 0 invariant forall a int, b int :: (a in $visited) && (b in $visited) && a != b ==> dkgQ(m.payload)[a] != dkgQ(m.payload)[b]
//@   loop 0 invariant unchanged("*internal.SignatureConfirmation", "*internal.SignatureProposalParticipant", "map[int]*internal.SignatureProposalParticipant", "*internal.DumpedMachineStatePayload") || true
//@   loop 0 invariant m.payload.Threshold == old(m.payload.Threshold) && m.payload.SigningProposalPayload == old(m.payload.SigningProposalPayload) && m.payload.SignatureProposalPayload == old(m.payload.SignatureProposalPayload) && m.payload == old(m.payload)
//@   loop 0 invariant unchanged("*internal.SignatureConfirmation", "*internal.SignatureProposalParticipant", "map[int]*internal.SignatureProposalParticipant")
//@   loop 0 invariant forall q *internal.DKGProposalParticipant :: q.Status == old(q.Status) && q.Error == old(q.Error) && q.Username == old(q.Username) && q.DkgCommit == old(q.DkgCommit) && q.DkgDeal == old(q.DkgDeal) && q.DkgResponse == old(q.DkgResponse) && q.DkgMasterKey == old(q.DkgMasterKey) && q.DkgPubKey == old(q.DkgPubKey)
//@   loop 1 invariant dp(m) != nil && fresh(dp(m)) && dkgQ(m.payload) != nil && dom(dkgQ(m.payload)) == old(dom(sigQ(m.payload)))
//@   loop 1 invariant forall k int :: k in dkgQ(m.payload) ==> dkgQ(m.payload)[k] != nil && dkgQ(m.payload)[k].Status == internal.CommitAwaitConfirmation && dkgQ(m.payload)[k].Username == old(sigQ(m.payload)[k].Username) && dkgQ(m.payload)[k].Error == nil
//@   loop 1 invariant m.payload.Threshold == old(m.payload.Threshold) && m.payload.SigningProposalPayload == old(m.payload.SigningProposalPayload) && m.payload.SignatureProposalPayload == old(m.payload.SignatureProposalPayload) && m.payload == old(m.payload)
//@   loop 1 invariant unchanged("*internal.SignatureConfirmation", "*internal.SignatureProposalParticipant", "map[int]*internal.SignatureProposalParticipant")
//@   loop 1 invariant forall q *internal.DKGProposalParticipant :: q.Status == old(q.Status) && q.Error == old(q.Error) && q.Username == old(q.Username) && q.DkgCommit == old(q.DkgCommit) && q.DkgDeal == old(q.DkgDeal) && q.DkgResponse == old(q.DkgResponse) && q.DkgMasterKey == old(q.DkgMasterKey) && q.DkgPubKey == old(q.DkgPubKey)
"""

out = []
w = out.append
w("""//go:build verif

package dkg_proposal_fsm

// Contracts for the DKG-proposal actions (checked by /verif/gocv; comment-only file).
// Written by /verif/tools/gen_dkg_contracts.py from one template per action shape.
//
//@ spec func dp(m *DKGProposalFSM) *internal.DKGConfirmation = m.payload.DKGProposalPayload
//@ spec func wfDkg(m *DKGProposalFSM) bool = m != nil && m.payload != nil && wfDkgQ(m.payload)
//@ spec func dkgExpired(m *DKGProposalFSM) bool = timeBefore(dp(m).ExpiresAt, dp(m).UpdatedAt)
//@ spec func dkgCnt(p *internal.DumpedMachineStatePayload, w internal.DKGParticipantStatus) int = cntSt(dom(dkgQ(p)), vals(dkgQ(p)), fieldmap(internal.DKGProposalParticipant.Status), w)
//@ spec func dkgCntOldQ(p *internal.DumpedMachineStatePayload, w internal.DKGParticipantStatus) int = cntSt(old(dom(dkgQ(p))), old(vals(dkgQ(p))), fieldmap(internal.DKGProposalParticipant.Status), w)
//@ spec func dkgPhaseOk(p *internal.DumpedMachineStatePayload, a internal.DKGParticipantStatus, b internal.DKGParticipantStatus) bool = forall k int :: k in dkgQ(p) ==> dkgQ(p)[k].Status == a || dkgQ(p)[k].Status == b
//@ spec func dkgAny(p *internal.DumpedMachineStatePayload, w internal.DKGParticipantStatus) bool = exists k int :: (k in dkgQ(p)) && dkgQ(p)[k].Status == w
//
// nothing observable about the DKG round changed
//@ spec func dkgViewsSame(m *DKGProposalFSM) bool = unchanged("*internal.DKGProposalParticipant", "*internal.DKGConfirmation", "*internal.SignatureConfirmation", "*internal.DumpedMachineStatePayload", "map[int]*internal.DKGProposalParticipant", "[]byte")
//
// only the record of participant id (and the round's UpdatedAt / PubPolyBz) may differ
//@ spec func dkgOthersSame(m *DKGProposalFSM, id int) bool = (forall q *internal.DKGProposalParticipant :: q != old(dkgQ(m.payload)[id]) ==> q.Status == old(q.Status) && q.DkgCommit == old(q.DkgCommit) && q.DkgDeal == old(q.DkgDeal) && q.DkgResponse == old(q.DkgResponse) && q.DkgMasterKey == old(q.DkgMasterKey) && q.Error == old(q.Error) && q.Username == old(q.Username) && q.DkgPubKey == old(q.DkgPubKey)) && dkgQ(m.payload) == old(dkgQ(m.payload)) && dom(dkgQ(m.payload)) == old(dom(dkgQ(m.payload))) && vals(dkgQ(m.payload)) == old(vals(dkgQ(m.payload))) && unchanged("*internal.DumpedMachineStatePayload", "*internal.SignatureConfirmation") && dp(m).ExpiresAt == old(dp(m).ExpiresAt) && dp(m).CreatedAt == old(dp(m).CreatedAt)
""")

for ph in phases:
    req = "requests." + ph["req"]
    others = [f for f in datafields if f != ph["pf"]]
    keep = " && ".join("dkgQ(m.payload)[rq%s(args).ParticipantId].%s == old(dkgQ(m.payload)[rq%s(args).ParticipantId].%s)" % (ph["n"], f, ph["n"], f) for f in others)
    w("""
// ---- phase: %(n)s
//@ spec func is%(n)sReq(args []interface{}) bool = len(args) == 1 && istype(args[0], %(req)s)
//@ spec func rq%(n)s(args []interface{}) %(req)s = args[0].(%(req)s)

//@ func (*DKGProposalFSM).%(act)s
//@   safety C18
//@   requires wfDkg(m) && injDkg(dkgQ(m.payload))
//@   ensures[C05.count] err == nil ==> dkgCntOldQ(m.payload, internal.%(ok)s) == old(dkgCnt(m.payload, internal.%(ok)s)) + 1 && len(dkgQ(m.payload)) == old(len(dkgQ(m.payload)))
//@   ensures[C05.phasekeep] err == nil && old(dkgPhaseOk(m.payload, internal.%(aw)s, internal.%(ok)s)) ==> dkgPhaseOk(m.payload, internal.%(aw)s, internal.%(ok)s) && !dkgAny(m.payload, internal.%(er)s)
//@   ensures[C05.reject,C18.reject] err != nil ==> dkgViewsSame(m)
//@   ensures[C05.shape] outEvent == "" && response == nil
//@   ensures[C05.once,C10.once] err == nil ==> is%(n)sReq(args) && old(rq%(n)s(args).ParticipantId in dkgQ(m.payload)) && old(dkgQ(m.payload)[rq%(n)s(args).ParticipantId].Status) == internal.%(aw)s && dkgQ(m.payload)[rq%(n)s(args).ParticipantId].Status == internal.%(ok)s
//@   ensures[C05.data,C02.data] err == nil ==> len(rq%(n)s(args).%(rf)s) > 0 && content(dkgQ(m.payload)[rq%(n)s(args).ParticipantId].%(pf)s) == old(content(rq%(n)s(args).%(rf)s)) && fresh(dkgQ(m.payload)[rq%(n)s(args).ParticipantId].%(pf)s)
//@   ensures[C05.keepdata] err == nil ==> %(keep)s
//@   ensures[C05.frame,C10.frame] err == nil ==> dkgOthersSame(m, rq%(n)s(args).ParticipantId) && unchanged("[]byte")
""" % dict(ph, req=req, keep=keep))
    if ph["n"] == "MasterKey":
        w("""// the public polynomial the node keeps for reconstruction: an announcement that carries one is accepted only if it
// repeats what was announced before, and an accepted announcement never replaces a polynomial already kept
//@   ensures[C02.pubpoly] err == nil && old(len(dp(m).PubPolyBz)) > 0 && len(rqMasterKey(args).PubPolyBz) > 0 ==> old(content(dp(m).PubPolyBz)) == old(content(rqMasterKey(args).PubPolyBz))
//@   ensures[C02.pubpoly] err == nil && old(len(dp(m).PubPolyBz)) > 0 ==> content(dp(m).PubPolyBz) == old(content(dp(m).PubPolyBz))
""")
    # validator
    w("""
//@ func (*DKGProposalFSM).%(val)s
//@   safety C18
//@   requires wfDkg(m) && dkgQ(m.payload) != nil && injDkg(dkgQ(m.payload))
//@   ensures[C05.noerr] err == nil
//@   ensures[C05.outs] outEvent == "" || outEvent == %(tmo)s || outEvent == %(cerr)s || outEvent == %(conf)s
%(cancelonly)s//@   ensures[C05.timeout] old(dkgExpired(m)) ==> outEvent == %(tmo)s && response == nil && dkgViewsSame(m)
//@   ensures[C05.cancel] !old(dkgExpired(m)) && old(dkgAny(m.payload, internal.%(er)s)) ==> outEvent == %(cerr)s && response == nil""" % dict(ph, cancelonly=("//@   ensures[C05.cancel.only] outEvent == %(cerr)s ==> old(dkgAny(m.payload, internal.%(er)s))\n" % ph if ph["nxt"] else "")) + (" && dkgViewsSame(m)" if ph["nxt"] else "") )
    if ph["nxt"]:
        w("""//@   ensures[C05.wait] !old(dkgExpired(m)) && !old(dkgAny(m.payload, internal.%(er)s)) && old(dkgCnt(m.payload, internal.%(ok)s)) < old(len(dkgQ(m.payload))) ==> outEvent == "" && response == nil && dkgViewsSame(m)
//@   ensures[C05.advance] !old(dkgExpired(m)) && !old(dkgAny(m.payload, internal.%(er)s)) && old(dkgCnt(m.payload, internal.%(ok)s)) == old(len(dkgQ(m.payload))) ==> outEvent == %(conf)s
//@   ensures[C05.advanced.status] outEvent == %(conf)s ==> (forall k int :: k in dkgQ(m.payload) ==> dkgQ(m.payload)[k].Status == internal.%(nxt)s)
//@   ensures[C05.phasekeep] outEvent != %(conf)s && old(dkgPhaseOk(m.payload, internal.%(aw)s, internal.%(ok)s)) ==> dkgPhaseOk(m.payload, internal.%(aw)s, internal.%(ok)s)
//@   ensures[C05.keep] unchanged("*internal.DumpedMachineStatePayload", "*internal.DKGConfirmation", "*internal.SignatureConfirmation", "map[int]*internal.DKGProposalParticipant", internal.DKGProposalParticipant.DkgCommit, internal.DKGProposalParticipant.DkgDeal, internal.DKGProposalParticipant.DkgResponse, internal.DKGProposalParticipant.DkgMasterKey, internal.DKGProposalParticipant.Error, internal.DKGProposalParticipant.Username, "[]byte")
//@   loop 0 invariant isContainsError == (exists k int :: (k in $visited) && dkgQ(m.payload)[k].Status == internal.%(er)s)
//@   loop 0 invariant %(uv)s == len(dkgQ(m.payload)) - cntSt($visited, vals(dkgQ(m.payload)), fieldmap(internal.DKGProposalParticipant.Status), internal.%(ok)s)
//@   loop 1 invariant forall k int :: k in $visited ==> dkgQ(m.payload)[k].Status == internal.%(nxt)s
//@   loop 1 invariant unchanged("*internal.DumpedMachineStatePayload", "*internal.DKGConfirmation", "*internal.SignatureConfirmation", "map[int]*internal.DKGProposalParticipant", internal.DKGProposalParticipant.DkgCommit, internal.DKGProposalParticipant.DkgDeal, internal.DKGProposalParticipant.DkgResponse, internal.DKGProposalParticipant.DkgMasterKey, internal.DKGProposalParticipant.Error, internal.DKGProposalParticipant.Username, "[]byte")
//@   ensures[C08.resp.ordered] outEvent == %(conf)s ==> istype(response, responses.%(rt)s) && len(response.(responses.%(rt)s)) <= len(dkgQ(m.payload)) && (forall a int, b int :: 0 <= a && a < b && b < len(response.(responses.%(rt)s)) ==> response.(responses.%(rt)s)[a].ParticipantId < response.(responses.%(rt)s)[b].ParticipantId)
//@   loop 2 invariant len(responseData) <= $i + 1 && len($range) == len(dkgQ(m.payload))
//@   loop 2 invariant forall a int :: 0 <= a && a < len(responseData) ==> responseData[a] != nil && ($i >= 0 && responseData[a].ParticipantId <= $range[$i].ParticipantID)
//@   loop 2 invariant forall a int, b int :: 0 <= a && a < b && b < len(responseData) ==> responseData[a].ParticipantId < responseData[b].ParticipantId
//@   loop 2 invariant forall a int, b int :: 0 <= a && a < b && b < len($range) ==> $range[a].ParticipantID < $range[b].ParticipantID
//@   loop 2 invariant forall k int :: k in dkgQ(m.payload) ==> dkgQ(m.payload)[k].Status == internal.%(nxt)s
//@   loop 2 invariant unchanged("*internal.DumpedMachineStatePayload", "*internal.DKGConfirmation", "*internal.SignatureConfirmation", "map[int]*internal.DKGProposalParticipant", internal.DKGProposalParticipant.DkgCommit, internal.DKGProposalParticipant.DkgDeal, internal.DKGProposalParticipant.DkgResponse, internal.DKGProposalParticipant.DkgMasterKey, internal.DKGProposalParticipant.Error, internal.DKGProposalParticipant.Username, "[]byte")
""" % ph)
w(MK)
w(ERRACT)
open(PKG, "w").write("\n".join(out) + "\n")
print("written", PKG)
