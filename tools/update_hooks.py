#!/usr/bin/env python3
# Lists every /repo commit after the pinned snapshot that is not a "fix:" commit as a hook commit in manifest_table.json
# (each of them touches nothing but the build-tag guarded, comment-only contracts_verif.go files; this is asserted here).
import json, subprocess
t = json.load(open('/verif/manifest_table.json'))
out = subprocess.check_output(['git', '-C', '/repo', 'log', '--format=%H %s', 'b5fc6c2..HEAD'], text=True).strip().split('\n')
hooks = []
for l in reversed(out):
    h, subj = l.split(' ', 1)
    if subj.startswith('fix:'):
        continue
    files = subprocess.check_output(['git', '-C', '/repo', 'show', '--name-only', '--format=', h], text=True).split()
    assert files and all(f.endswith('_verif.go') for f in files), (h, subj, files)
    hooks.append(h)
t['hook_commits'] = hooks
json.dump(t, open('/verif/manifest_table.json', 'w'), indent=1)
print(len(hooks), 'hook commits')
