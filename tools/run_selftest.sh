#!/bin/bash
# Must-fail self-test of the checks: every diff in /verif/selftest (reverted fix commits as canaries and
# hand-made property-breaking edits) is applied to a scratch git worktree of /repo's HEAD and the check of the
# property named in the file name (<Cxx>_<name>.diff) must report a violation (exit 1). Usage: run_selftest.sh [outfile]
OUT=${1:-/verif/selftest/results.txt}
export GOFLAGS=-mod=mod GOPROXY=off GOSUMDB=off GOTOOLCHAIN=local
S=/tmp/selftestrun
rm -rf $S; mkdir -p $S
git -C /repo worktree prune
git -C /repo worktree add --detach $S/repo HEAD >/dev/null 2>&1 || { echo "cannot create worktree"; exit 2; }
rsync -a --exclude work --exclude replays --exclude .git /verif/ $S/verif/
: > $OUT
bad=0
for f in /verif/selftest/*.diff; do
  n=$(basename $f .diff); p=${n%%_*}
  git -C $S/repo apply $f || { echo "$n patch-does-not-apply" >> $OUT; bad=1; continue; }
  $S/verif/bin/gocv check -prop $p -tier quick -repo $S/repo -verif $S/verif > $S/out.txt 2>&1; rc=$?
  v=$(grep -c "^VIOLATION" $S/out.txt)
  verdict=MISSED; [ $rc -eq 1 ] && [ $v -gt 0 ] && verdict=caught
  [ $verdict = MISSED ] && bad=1
  echo "$n $p $verdict exit=$rc violations=$v $(grep -m1 '^VIOLATION' $S/out.txt | sed 's/.*replays\///' | cut -c1-110)" >> $OUT
  git -C $S/repo checkout -q -- . ; git -C $S/repo clean -fdq
done
git -C /repo worktree remove --force $S/repo
rm -rf $S
echo "done bad=$bad" >> $OUT
exit $bad
