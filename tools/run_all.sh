#!/bin/bash
# Runs every claimed check once on /repo's working tree (quick tier by default) and prints one summary line each.
# Usage: tools/run_all.sh [quick|thorough] [-update-baseline]
V="$(cd "$(dirname "$0")/.." && pwd)"
TIER=${1:-quick}; shift
bad=0
for p in C02 C03 C04 C05 C06 C08 C09 C10 C11 C12 C13 C15 C16 C17 C18 C19 C20; do
  "$V/check" $p $TIER "$@" > /tmp/run_all.$$.log 2>&1; rc=$?
  [ $rc -ne 0 ] && bad=1
  echo "$p exit=$rc $(grep -c '^KNOWN-FINDING' /tmp/run_all.$$.log) known-finding lines; $(grep '^gocv: property' /tmp/run_all.$$.log | tail -1)"
  grep '^VIOLATION\|^UNDECIDED\|^ENGINE' /tmp/run_all.$$.log | cut -c1-220
done
rm -f /tmp/run_all.$$.log
exit $bad
