package main

import (
	"fmt"
	"go/constant"
	"go/token"
	"go/types"
	"math/big"
	"os"
	"sort"
	"strings"
	"time"

	"golang.org/x/tools/go/ssa"
)

// ---------- symbolic state ----------

type State struct {
	h map[string]string
}

func (s *State) clone() *State {
	n := &State{h: make(map[string]string, len(s.h))}
	for k, v := range s.h {
		n.h[k] = v
	}
	return n
}

type Obligation struct {
	Func   string
	Name   string // aggregated obligation name, e.g. "[C06.batch]" or "safety"
	Kind   string // post pre@call inv-init inv-step safety assert frame cover
	Detail string // site description
	Pos    int    // number of body lines that precede it
	Guard  string
	Goal   string
	Cover  bool // satisfiable expected
	Clause *Clause
	Props  []string
	Result string // filled by solver: unsat sat unknown
	Solver string
	Ms     int64
	Model  string
	Site   token.Position
	Replay *ReplaySpec // a test that shows the failure on the real code, when one can be constructed
}

type addrKind int

const (
	aObj addrKind = iota // pointer to expanded struct object (no field yet)
	aField
	aCell
	aElem
	aArr // pointer to array object
	aGlobal
)

type pathStep struct {
	field int    // >=0: struct field index
	idx   string // array index term when field < 0
	cont  types.Type
}

type Addr struct {
	kind  addrKind
	ref   string
	idx   string
	styp  types.Type // struct type for aObj/aField
	fidx  int
	g     *ssa.Global
	base  types.Type // type of value stored at base location
	path  []pathStep
	typ   types.Type // type of designated location
	inter bool       // interior pointer (cannot be represented by a plain ref)
}

type deferred struct {
	call *ssa.Defer
	flag string // state var recording whether the defer was executed
	args []string
	recv string
}

type VC struct {
	P              *Prog
	fn             *ssa.Function
	key            string
	contract       *Contract
	pre            *Prelude
	body           []string
	obls           []*Obligation
	nfresh         int
	vals           map[ssa.Value]string
	addrs          map[ssa.Value]*Addr
	tuples         map[ssa.Value][]string
	reach          map[*ssa.BasicBlock]string // reach at block entry
	outSt          map[*ssa.BasicBlock]*State
	outReach       map[*ssa.BasicBlock]string
	edge           map[[2]int]string // (pred index, succ index) -> edge condition
	cur            string            // current reach term
	st             *State
	entry          *State
	loops          map[*ssa.BasicBlock]*loopInfo
	loopOrd        map[*ssa.BasicBlock]int
	defers         []*deferred
	warnings       []string
	unsupported    []string
	uncontracted   map[string]bool
	assumedUsed    map[string]bool
	defaultExt     map[string]bool
	params         map[string]TV
	results        []TV // named result info (names/types)
	retCount       int
	prop           string
	rangeIt        map[ssa.Value]*rangeInfo
	curInstr       ssa.Instruction
	safetyOn       bool
	safetyProp     bool
	axiomText      string
	quickMs        int
	slowFails      int32 // obligations of this unit that failed the raced slow path so far (see Discharge)
	parent         *VC
	depth          int
	inlined        map[string]bool
	groundUsed     map[string]bool
	memo           map[string]string
	defLine        map[string]int
	defLineN       int
	pathNote       string
	globalsAssumed map[string]bool
	order          []*ssa.BasicBlock
	done           bool
	retsP          *[]inlRet
	splitOK        bool
	unmatchedDone  bool
	knownOpen      map[string]bool
	crossCheck     bool
	rootOf         *VC
	pending        []branchOut
	workDir        string
	nfeas          int
	rets           []inlRet
}

type inlRet struct {
	cur  string
	st   *State
	res  []TV
	note string
}

type rangeInfo struct {
	m       string // map ref term
	mt      *types.Map
	visName string // state var holding visited set
}

type loopInfo struct {
	header *ssa.BasicBlock
	body   map[*ssa.BasicBlock]bool
	mods   map[string]bool
	// roots[h] lists the allocations (outside the loop) through which h is written in the loop;
	// present only if every write to h in the loop is rooted at such an allocation
	roots     map[string][]ssa.Instruction
	bases     map[string][]loopBase
	loadBases map[string][]loopBase
	freshOnly map[string][]*ssa.Alloc
	wild      map[string]bool
	ord       int
}

// isLoadFromOutside: v = *p with p fixed while the loop runs
func isLoadFromOutside(v ssa.Value, body map[*ssa.BasicBlock]bool) bool {
	u, ok := v.(*ssa.UnOp)
	if !ok || u.Op != token.MUL {
		return false
	}
	if _, isAlloc := u.X.(*ssa.Alloc); !isAlloc {
		return false
	}
	return definedOutside(u.X, body)
}

type loopBase struct {
	v       ssa.Value
	isSlice bool
}

// definedOutside: the value cannot change while the loop runs (parameter, or defined in a block outside the body)
func definedOutside(v ssa.Value, body map[*ssa.BasicBlock]bool) bool {
	switch x := v.(type) {
	case *ssa.Parameter, *ssa.FreeVar:
		return true
	case ssa.Instruction:
		return !body[x.Block()]
	}
	return false
}

type TV struct {
	T     string
	Ty    types.Type
	IsNil bool
}

// r returns the root frame: inlined callees are translated by child VCs that share the root's output.
func (vc *VC) r() *VC {
	for vc.parent != nil {
		vc = vc.parent
	}
	if vc.rootOf != nil {
		return vc.rootOf // a continuation clone of the root frame writes to the original root
	}
	return vc
}

func (vc *VC) nextN() int {
	r := vc.r()
	r.nfresh++
	return r.nfresh
}

func (vc *VC) warn(f string, a ...interface{}) {
	r := vc.r()
	r.warnings = append(r.warnings, fmt.Sprintf(f, a...))
}

func (vc *VC) unsup(f string, a ...interface{}) {
	r := vc.r()
	m := fmt.Sprintf(f, a...)
	if vc.parent != nil {
		m = "in inlined " + shortKey(vc.key) + ": " + m
	}
	for _, u := range r.unsupported {
		if u == m {
			return
		}
	}
	r.unsupported = append(r.unsupported, m)
}

func (vc *VC) freshName(prefix string) string {
	return q(fmt.Sprintf("%s!%d", prefix, vc.nextN()))
}

func (vc *VC) define(prefix, sort, term string) string {
	n := vc.freshName(prefix)
	r := vc.r()
	if sort != "Bool" && needsOpaqueName(term) {
		// Solvers expand define-fun inside quantifier patterns; a pattern must not contain ite or logical
		// connectives, so such terms get an opaque name plus its defining equation (a conservative extension).
		r.body = append(r.body, fmt.Sprintf("(declare-const %s %s) (assert (= %s %s))", n, sort, n, term))
		return n
	}
	r.body = append(r.body, fmt.Sprintf("(define-fun %s () %s %s)", n, sort, term))
	return n
}

func needsOpaqueName(term string) bool {
	return strings.Contains(term, "(ite ") || strings.Contains(term, "(and ") || strings.Contains(term, "(or ") || strings.Contains(term, "(not ") || strings.Contains(term, "(=> ")
}

func (vc *VC) declare(prefix, sort string) string {
	n := vc.freshName(prefix)
	r := vc.r()
	r.body = append(r.body, fmt.Sprintf("(declare-const %s %s)", n, sort))
	return n
}

func (vc *VC) assume(fact string) {
	if fact == "" || fact == "true" {
		return
	}
	vc.cur = vc.define("R", "Bool", fmt.Sprintf("(and %s %s)", vc.cur, fact))
}

func (vc *VC) pos() token.Position {
	if vc.curInstr != nil && vc.curInstr.Pos().IsValid() {
		return vc.P.Fset.Position(vc.curInstr.Pos())
	}
	return token.Position{}
}

func (vc *VC) oblige(name, kind, detail, goal string, clause *Clause) {
	r := vc.r()
	if vc.parent != nil {
		detail = "in inlined " + shortKey(vc.key) + ": " + detail
	}
	if vc.pathNote != "" {
		detail += " [path: " + vc.pathNote + "]"
	}
	o := &Obligation{Func: r.key, Name: name, Kind: kind, Detail: detail, Pos: len(r.body), Guard: vc.cur, Goal: goal, Clause: clause, Site: vc.pos()}
	r.obls = append(r.obls, o)
}

// safety obligation followed by assumption of the checked fact
func (vc *VC) safety(what, goal string) {
	on := vc.safetyOn
	if c := vc.r().contract; on && c != nil && len(c.SafetyKinds) > 0 {
		on = false
		for _, k := range c.SafetyKinds {
			if strings.Contains(what, k) {
				on = true
			}
		}
	}
	if on {
		vc.oblige("safety", "safety", what, goal, nil)
	}
	vc.assume(goal)
}

// ---------- heaps ----------

func (vc *VC) getH(st *State, name, sort string) string {
	vc.pre.heap(name, sort)
	if t, ok := st.h[name]; ok {
		return t
	}
	if strings.HasPrefix(name, "$defer") {
		return "false"
	}
	return q(name + "@0")
}

func (vc *VC) setH(st *State, name, sort, term string) {
	vc.pre.heap(name, sort)
	st.h[name] = vc.define(name, sort, term)
}

func (vc *VC) havocH(st *State, name string) {
	sort, ok := vc.pre.heapSort[name]
	if !ok {
		sort = vc.heapSortByName(name)
		if sort == "" {
			return
		}
		vc.pre.heap(name, sort)
	}
	old := vc.getH(st, name, sort)
	st.h[name] = vc.declare(name, sort)
	if name == "$next" {
		vc.assume(fmt.Sprintf("(>= %s %s)", st.h[name], old))
	}
}

func fieldHeap(st types.Type, i int) string {
	return "HF:" + typeStr(st) + "." + st.Underlying().(*types.Struct).Field(i).Name()
}

func (vc *VC) fieldHeapSort(st types.Type, i int) string {
	return "(Array Int " + vc.pre.sortOf(st.Underlying().(*types.Struct).Field(i).Type()) + ")"
}

func (vc *VC) arrHeap(elem types.Type) (string, string) {
	s := vc.pre.sortOf(elem)
	return "HA:" + heapTypeKey(elem), "(Array Int (Array Int " + s + "))"
}

func (vc *VC) cellHeap(t types.Type) (string, string) {
	s := vc.pre.sortOf(t)
	return "HV:" + heapTypeKey(t), "(Array Int " + s + ")"
}

func (vc *VC) mapHeaps(mt *types.Map) (dn, ds, vn, vs string) {
	k, v := vc.pre.sortOf(mt.Key()), vc.pre.sortOf(mt.Elem())
	kk, vk := heapTypeKey(mt.Key()), heapTypeKey(mt.Elem())
	return "HMd:" + kk + ":" + vk, "(Array Int (Array " + k + " Bool))", "HMv:" + kk + ":" + vk, "(Array Int (Array " + k + " " + v + "))"
}

func globalHeap(g *ssa.Global) string {
	return "G:" + g.Pkg.Pkg.Path() + "." + g.Name()
}

// heapSortByName recovers the sort of a heap variable from program types (used when a
// modset names a heap this VC has not touched yet).
func (vc *VC) heapSortByName(name string) string {
	if s, ok := vc.P.heapSortFn(name); ok {
		return s(vc)
	}
	if name == "$next" {
		return "Int"
	}
	if gv, ok := vc.P.Spec.GhostVars[name]; ok {
		t, err := vc.P.resolveType(gv.Type, gv.PkgPath)
		if err == nil {
			return vc.pre.sortOf(t)
		}
	}
	return ""
}

// ---------- values ----------

func (vc *VC) constTerm(c *ssa.Const) string {
	t := c.Type()
	if c.Value == nil {
		return vc.pre.zeroOf(t)
	}
	switch c.Value.Kind() {
	case constant.Bool:
		if constant.BoolVal(c.Value) {
			return "true"
		}
		return "false"
	case constant.String:
		return vc.pre.strLit(constant.StringVal(c.Value))
	case constant.Int:
		b, ok := new(big.Int).SetString(c.Value.ExactString(), 10)
		if !ok {
			return "0"
		}
		if vc.pre.sortOf(t) == "Real" {
			return intLit(b) + ".0"
		}
		return intLit(b)
	case constant.Float:
		f, _ := constant.Float64Val(c.Value)
		return fmt.Sprintf("%f", f)
	}
	return vc.pre.zeroOf(t)
}

func (vc *VC) val(v ssa.Value) string {
	switch v := v.(type) {
	case *ssa.Const:
		return vc.constTerm(v)
	case *ssa.Global:
		n := q("globref:" + globalHeap(v))
		vc.pre.declFun(n, "() Int")
		return n
	case *ssa.Function:
		n := q("fn:" + v.String())
		if !vc.pre.funDone[n] {
			vc.pre.declFun(n, "() Int")
			vc.pre.declFun("fv_fn", "(Int) Int")
			vc.pre.axioms = append(vc.pre.axioms, fmt.Sprintf("(assert (and (not (= %s 0)) (= (fv_fn %s) %d)))", n, n, vc.P.fnID(funcKey(v))))
		}
		return n
	case *ssa.Builtin:
		return "0"
	}
	if t, ok := vc.vals[v]; ok {
		return t
	}
	// unknown value (e.g. free variable): fresh
	t := vc.declare("unk_"+v.Name(), vc.pre.sortOf(v.Type()))
	vc.vals[v] = t
	return t
}

func (vc *VC) setVal(v ssa.Value, term string) {
	name := q(fmt.Sprintf("%s", v.Name()))
	_ = name
	vc.vals[v] = vc.define(v.Name(), vc.pre.sortOf(v.Type()), term)
}

func strFacts(t string) string {
	return fmt.Sprintf("(and (>= (slen %s) 0) (=> (= (slen %s) 0) (= %s str_empty)))", t, t, t)
}

// rangeFact returns typing assumptions for a value of type t (or "").
func (vc *VC) rangeFact(term string, t types.Type, st *State) string {
	t = types.Unalias(t)
	switch u := t.Underlying().(type) {
	case *types.Basic:
		switch u.Kind() {
		case types.Uint8:
			return fmt.Sprintf("(and (<= 0 %s) (<= %s 255))", term, term)
		case types.Uint16:
			return fmt.Sprintf("(and (<= 0 %s) (<= %s 65535))", term, term)
		case types.Uint32:
			return fmt.Sprintf("(and (<= 0 %s) (<= %s 4294967295))", term, term)
		case types.Uint, types.Uint64, types.Uintptr:
			return fmt.Sprintf("(<= 0 %s)", term)
		case types.Int8:
			return fmt.Sprintf("(and (<= (- 128) %s) (<= %s 127))", term, term)
		case types.String, types.UntypedString:
			return strFacts(term)
		}
	case *types.Pointer, *types.Map:
		return fmt.Sprintf("(and (<= 0 %s) (< %s %s))", term, term, vc.getH(st, "$next", "Int"))
	case *types.Slice:
		return fmt.Sprintf("(and (<= 0 (s_len %s)) (<= 0 (s_off %s)) (<= 0 (s_ref %s)) (< (s_ref %s) %s) (=> (= (s_ref %s) 0) (= (s_len %s) 0)))", term, term, term, term, vc.getH(st, "$next", "Int"), term, term)
	}
	return ""
}

func (vc *VC) assumeRange(term string, t types.Type) {
	if f := vc.rangeFact(term, t, vc.st); f != "" {
		vc.assume(f)
	}
}

// ---------- addresses ----------

func isExpandedStruct(t types.Type) bool {
	_, ok := types.Unalias(t).Underlying().(*types.Struct)
	return ok && expandStruct(types.Unalias(t))
}

func (vc *VC) addrOf(v ssa.Value) *Addr {
	if a, ok := vc.addrs[v]; ok {
		return a
	}
	if g, ok := v.(*ssa.Global); ok {
		pt := g.Type().(*types.Pointer).Elem()
		return &Addr{kind: aGlobal, g: g, base: pt, typ: pt}
	}
	pt, ok := types.Unalias(v.Type()).Underlying().(*types.Pointer)
	if !ok {
		vc.unsup("address of non-pointer %s", v.Name())
		return &Addr{kind: aCell, ref: "0", base: types.Typ[types.Int], typ: types.Typ[types.Int]}
	}
	el := pt.Elem()
	ref := vc.val(v)
	if isExpandedStruct(el) {
		return &Addr{kind: aObj, ref: ref, styp: types.Unalias(el), typ: el}
	}
	if _, ok := types.Unalias(el).Underlying().(*types.Array); ok {
		return &Addr{kind: aArr, ref: ref, base: el, typ: el}
	}
	return &Addr{kind: aCell, ref: ref, base: el, typ: el}
}

func (vc *VC) nilCheck(a *Addr, what string) {
	if a.kind == aGlobal {
		return
	}
	if a.ref == "" {
		return
	}
	vc.safety("nil dereference: "+what, fmt.Sprintf("(not (= %s 0))", a.ref))
}

// readBase reads the value stored at the base location of a (ignoring path).
func (vc *VC) readBase(a *Addr, st *State) string {
	switch a.kind {
	case aObj:
		s := a.styp.Underlying().(*types.Struct)
		if s.NumFields() == 0 {
			return structCtor(a.styp)
		}
		var fs []string
		for i := 0; i < s.NumFields(); i++ {
			fs = append(fs, fmt.Sprintf("(select %s %s)", vc.getH(st, fieldHeap(a.styp, i), vc.fieldHeapSort(a.styp, i)), a.ref))
		}
		vc.pre.sortOf(a.styp)
		return "(" + structCtor(a.styp) + " " + strings.Join(fs, " ") + ")"
	case aField:
		return fmt.Sprintf("(select %s %s)", vc.getH(st, fieldHeap(a.styp, a.fidx), vc.fieldHeapSort(a.styp, a.fidx)), a.ref)
	case aCell:
		n, s := vc.cellHeap(a.base)
		return fmt.Sprintf("(select %s %s)", vc.getH(st, n, s), a.ref)
	case aArr:
		n, s := vc.arrHeap(types.Unalias(a.base).Underlying().(*types.Array).Elem())
		return fmt.Sprintf("(select %s %s)", vc.getH(st, n, s), a.ref)
	case aElem:
		n, s := vc.arrHeap(a.base)
		return fmt.Sprintf("(select (select %s %s) %s)", vc.getH(st, n, s), a.ref, a.idx)
	case aGlobal:
		return vc.getH(st, globalHeap(a.g), vc.pre.sortOf(a.base))
	}
	return "0"
}

func (vc *VC) writeBase(a *Addr, st *State, v string) {
	switch a.kind {
	case aObj:
		s := a.styp.Underlying().(*types.Struct)
		for i := 0; i < s.NumFields(); i++ {
			hn, hs := fieldHeap(a.styp, i), vc.fieldHeapSort(a.styp, i)
			vc.setH(st, hn, hs, fmt.Sprintf("(store %s %s (%s %s))", vc.getH(st, hn, hs), a.ref, fieldAcc(a.styp, i), v))
		}
	case aField:
		hn, hs := fieldHeap(a.styp, a.fidx), vc.fieldHeapSort(a.styp, a.fidx)
		vc.setH(st, hn, hs, fmt.Sprintf("(store %s %s %s)", vc.getH(st, hn, hs), a.ref, v))
	case aCell:
		n, s := vc.cellHeap(a.base)
		vc.setH(st, n, s, fmt.Sprintf("(store %s %s %s)", vc.getH(st, n, s), a.ref, v))
	case aArr:
		n, s := vc.arrHeap(types.Unalias(a.base).Underlying().(*types.Array).Elem())
		vc.setH(st, n, s, fmt.Sprintf("(store %s %s %s)", vc.getH(st, n, s), a.ref, v))
	case aElem:
		n, s := vc.arrHeap(a.base)
		h := vc.getH(st, n, s)
		vc.setH(st, n, s, fmt.Sprintf("(store %s %s (store (select %s %s) %s %s))", h, a.ref, h, a.ref, a.idx, v))
	case aGlobal:
		vc.setH(st, globalHeap(a.g), vc.pre.sortOf(a.base), v)
	}
}

func (vc *VC) applyPath(v string, path []pathStep) string {
	for _, s := range path {
		if s.field >= 0 {
			v = fmt.Sprintf("(%s %s)", fieldAcc(s.cont, s.field), v)
		} else {
			v = fmt.Sprintf("(select %s %s)", v, s.idx)
		}
	}
	return v
}

func (vc *VC) updatePath(base string, path []pathStep, v string) string {
	if len(path) == 0 {
		return v
	}
	s := path[0]
	if s.field >= 0 {
		st := s.cont.Underlying().(*types.Struct)
		vc.pre.sortOf(s.cont)
		var fs []string
		for i := 0; i < st.NumFields(); i++ {
			cur := fmt.Sprintf("(%s %s)", fieldAcc(s.cont, i), base)
			if i == s.field {
				fs = append(fs, vc.updatePath(cur, path[1:], v))
			} else {
				fs = append(fs, cur)
			}
		}
		return "(" + structCtor(s.cont) + " " + strings.Join(fs, " ") + ")"
	}
	cur := fmt.Sprintf("(select %s %s)", base, s.idx)
	return fmt.Sprintf("(store %s %s %s)", base, s.idx, vc.updatePath(cur, path[1:], v))
}

func (vc *VC) load(a *Addr, st *State) string {
	return vc.applyPath(vc.readBase(a, st), a.path)
}

func (vc *VC) store(a *Addr, st *State, v string) {
	if len(a.path) == 0 {
		vc.writeBase(a, st, v)
		return
	}
	vc.writeBase(a, st, vc.updatePath(vc.readBase(a, st), a.path, v))
}

// heapsOfAddr names the heap variables a store through a may modify.
func (vc *VC) heapsOfAddr(a *Addr) []string {
	switch a.kind {
	case aObj:
		var out []string
		s := a.styp.Underlying().(*types.Struct)
		for i := 0; i < s.NumFields(); i++ {
			out = append(out, fieldHeap(a.styp, i))
		}
		return out
	case aField:
		return []string{fieldHeap(a.styp, a.fidx)}
	case aCell:
		n, _ := vc.cellHeap(a.base)
		return []string{n}
	case aArr:
		n, _ := vc.arrHeap(types.Unalias(a.base).Underlying().(*types.Array).Elem())
		return []string{n}
	case aElem:
		n, _ := vc.arrHeap(a.base)
		return []string{n}
	case aGlobal:
		return []string{globalHeap(a.g)}
	}
	return nil
}

// ---------- allocation ----------

func (vc *VC) alloc(t types.Type) string {
	next := vc.getH(vc.st, "$next", "Int")
	r := vc.define("new", "Int", next)
	vc.setH(vc.st, "$next", "Int", fmt.Sprintf("(+ %s 1)", next))
	vc.assume(fmt.Sprintf("(> %s 0)", r))
	t = types.Unalias(t)
	if isExpandedStruct(t) {
		s := t.Underlying().(*types.Struct)
		for i := 0; i < s.NumFields(); i++ {
			hn, hs := fieldHeap(t, i), vc.fieldHeapSort(t, i)
			vc.setH(vc.st, hn, hs, fmt.Sprintf("(store %s %s %s)", vc.getH(vc.st, hn, hs), r, vc.pre.zeroOf(s.Field(i).Type())))
		}
		return r
	}
	if at, ok := t.Underlying().(*types.Array); ok {
		n, s := vc.arrHeap(at.Elem())
		vc.setH(vc.st, n, s, fmt.Sprintf("(store %s %s %s)", vc.getH(vc.st, n, s), r, vc.pre.zeroOf(t)))
		return r
	}
	n, s := vc.cellHeap(t)
	vc.setH(vc.st, n, s, fmt.Sprintf("(store %s %s %s)", vc.getH(vc.st, n, s), r, vc.pre.zeroOf(t)))
	return r
}

func (vc *VC) freshRef() string {
	next := vc.getH(vc.st, "$next", "Int")
	r := vc.define("new", "Int", next)
	vc.setH(vc.st, "$next", "Int", fmt.Sprintf("(+ %s 1)", next))
	vc.assume(fmt.Sprintf("(> %s 0)", r))
	return r
}

// ---------- CFG helpers ----------

func (vc *VC) findLoops() {
	vc.loops = map[*ssa.BasicBlock]*loopInfo{}
	vc.loopOrd = map[*ssa.BasicBlock]int{}
	var headers []*ssa.BasicBlock
	for _, b := range vc.fn.Blocks {
		for _, p := range b.Preds {
			if b.Dominates(p) {
				if _, ok := vc.loops[b]; !ok {
					vc.loops[b] = &loopInfo{header: b, body: map[*ssa.BasicBlock]bool{b: true}, mods: map[string]bool{}, roots: map[string][]ssa.Instruction{}, bases: map[string][]loopBase{}, loadBases: map[string][]loopBase{}, freshOnly: map[string][]*ssa.Alloc{}, wild: map[string]bool{}}
					headers = append(headers, b)
				}
				// natural loop: nodes reaching p without passing b
				li := vc.loops[b]
				var stack []*ssa.BasicBlock
				if !li.body[p] {
					li.body[p] = true
					stack = append(stack, p)
				}
				for len(stack) > 0 {
					n := stack[len(stack)-1]
					stack = stack[:len(stack)-1]
					for _, pp := range n.Preds {
						if !li.body[pp] {
							li.body[pp] = true
							stack = append(stack, pp)
						}
					}
				}
			}
		}
	}
	sort.Slice(headers, func(i, j int) bool { return headers[i].Index < headers[j].Index })
	for i, h := range headers {
		vc.loops[h].ord = i
		vc.loopOrd[h] = i
	}
	for _, li := range vc.loops {
		for b := range li.body {
			for _, ins := range b.Instrs {
				root := storeRoot(ins)
				dec := decoderTarget(ins)
				if os.Getenv("GOCV_TRACE") != "" {
					if n := len(vc.P.instrMods(ins, func(bb *ssa.BasicBlock) bool { return li.body[bb] })); n > 40 {
						fmt.Fprintf(os.Stderr, "trace: loop in %s: %s modifies %d heaps\n", vc.key, ins.String(), n)
					}
				}
				for _, h := range vc.P.instrMods(ins, func(bb *ssa.BasicBlock) bool { return li.body[bb] }) {
					li.mods[h] = true
					if dec != nil && h != "$next" {
						// writes only the local target and objects allocated by the call
						li.freshOnly[h] = append(li.freshOnly[h], dec)
						continue
					}
					if root != nil {
						li.roots[h] = append(li.roots[h], root)
					} else if base, isSlice := storeBase(ins); base != nil && definedOutside(base, li.body) {
						// the written object is named by a value that does not change in the loop
						li.bases[h] = append(li.bases[h], loopBase{base, isSlice})
					} else if base != nil && isLoadFromOutside(base, li.body) {
						// ... or is re-read in every iteration from a variable (checked below: the loop does not write it)
						li.loadBases[h] = append(li.loadBases[h], loopBase{base, isSlice})
					} else {
						li.wild[h] = true
					}
				}
			}
		}
	}
}

func (vc *VC) rpo() []*ssa.BasicBlock {
	seen := map[*ssa.BasicBlock]bool{}
	var post []*ssa.BasicBlock
	var dfs func(b *ssa.BasicBlock)
	dfs = func(b *ssa.BasicBlock) {
		seen[b] = true
		for _, s := range b.Succs {
			if !seen[s] && !s.Dominates(b) {
				dfs(s)
			}
		}
		post = append(post, b)
	}
	dfs(vc.fn.Blocks[0])
	for i, j := 0, len(post)-1; i < j; i, j = i+1, j-1 {
		post[i], post[j] = post[j], post[i]
	}
	return post
}

// mergeStates builds the entry state of block b from non-back predecessor edges.
func (vc *VC) mergeStates(b *ssa.BasicBlock, preds []*ssa.BasicBlock) *State {
	if len(preds) == 1 {
		return vc.outSt[preds[0]].clone()
	}
	names := map[string]bool{}
	for _, p := range preds {
		for k := range vc.outSt[p].h {
			names[k] = true
		}
	}
	keys := make([]string, 0, len(names))
	for k := range names {
		keys = append(keys, k)
	}
	sort.Strings(keys)
	st := &State{h: map[string]string{}}
	for _, k := range keys {
		sortS := vc.pre.heapSort[k]
		first := vc.getH(vc.outSt[preds[0]], k, sortS)
		same := true
		for _, p := range preds[1:] {
			if vc.getH(vc.outSt[p], k, sortS) != first {
				same = false
			}
		}
		if same {
			if _, ok := vc.outSt[preds[0]].h[k]; ok {
				st.h[k] = first
			}
			continue
		}
		term := vc.getH(vc.outSt[preds[len(preds)-1]], k, sortS)
		for i := len(preds) - 2; i >= 0; i-- {
			p := preds[i]
			term = fmt.Sprintf("(ite %s %s %s)", vc.edgeTo(p, b), vc.getH(vc.outSt[p], k, sortS), term)
		}
		st.h[k] = vc.define(k, sortS, term)
	}
	return st
}

func (vc *VC) edgeTo(p, b *ssa.BasicBlock) string {
	// all edges p->b (there may be two if both branches target b)
	var es []string
	for i, s := range p.Succs {
		if s == b {
			if e, ok := vc.edge[[2]int{p.Index, i}]; ok {
				es = append(es, e)
			}
		}
	}
	if len(es) == 0 {
		return "false"
	}
	if len(es) == 1 {
		return es[0]
	}
	return "(or " + strings.Join(es, " ") + ")"
}

// ---------- main driver ----------

func NewVC(P *Prog, fn *ssa.Function, prop string) *VC {
	vc := &VC{P: P, fn: fn, key: funcKey(fn), pre: NewPrelude(), vals: map[ssa.Value]string{}, addrs: map[ssa.Value]*Addr{},
		tuples: map[ssa.Value][]string{}, reach: map[*ssa.BasicBlock]string{}, outSt: map[*ssa.BasicBlock]*State{},
		outReach: map[*ssa.BasicBlock]string{}, edge: map[[2]int]string{}, uncontracted: map[string]bool{}, assumedUsed: map[string]bool{},
		defaultExt: map[string]bool{}, params: map[string]TV{}, prop: prop, rangeIt: map[ssa.Value]*rangeInfo{}, inlined: map[string]bool{}, groundUsed: map[string]bool{}}
	vc.contract = P.Spec.Contracts[vc.key]
	return vc
}

// NewVCFor creates the verification unit of one contract (a plain contract or one behaviour).
func NewVCFor(P *Prog, c *Contract, prop string) *VC {
	vc := NewVC(P, P.Funcs[c.Target], prop)
	vc.contract = c
	vc.key = c.Key
	return vc
}

func (vc *VC) clauseOn(c *Clause) bool { return c.HasProp(vc.prop) }

func (vc *VC) Generate() (err error) {
	defer func() {
		if r := recover(); r != nil {
			if ee, ok := r.(evalErr); ok {
				err = fmt.Errorf("%s: %s", vc.key, string(ee))
				return
			}
			panic(r)
		}
	}()
	fn := vc.fn
	if len(fn.Blocks) == 0 {
		return fmt.Errorf("%s has no body", vc.key)
	}
	c := vc.contract
	vc.safetyOn = vc.safetyProp && !(c != nil && c.NoSafety)
	vc.cur = "true"
	vc.st = &State{h: map[string]string{}}
	vc.entry = &State{h: map[string]string{}}
	vc.findLoops()
	// parameters
	for _, p := range fn.Params {
		t := vc.declare("p_"+p.Name(), vc.pre.sortOf(p.Type()))
		vc.vals[p] = t
		vc.params[p.Name()] = TV{T: t, Ty: p.Type()}
		vc.assumeRange(t, p.Type())
	}
	vc.assume(fmt.Sprintf("(> %s 0)", vc.getH(vc.st, "$next", "Int")))
	for _, fv := range fn.FreeVars {
		t := vc.declare("fv_"+fv.Name(), vc.pre.sortOf(fv.Type()))
		vc.vals[fv] = t
	}
	vc.assumeConstGlobals(fn)
	if c != nil {
		env := vc.entryEnv(vc.st, vc.st)
		for _, r := range c.Requires {
			vc.assume(vc.evalBool(env, r.E, r))
		}
		for _, ga := range c.Prologue {
			vc.ghostAssign(env, ga, vc.st)
		}
	}
	if c != nil {
		for i := range c.ErrorOnly {
			vc.setH(vc.st, fmt.Sprintf("$errfrom:%d", i), "Bool", "false")
		}
	}
	vc.oblige("cover:entry", "cover", "function entry reachable under requires", "true", nil)
	vc.r().obls[len(vc.r().obls)-1].Cover = true
	vc.entry = vc.st.clone()
	vc.order = vc.rpo()
	for _, b := range vc.order {
		vc.block(b)
		if vc.done {
			break
		}
	}
	return nil
}

func (vc *VC) block(b *ssa.BasicBlock) {
	// entry reach/state
	if b.Index == 0 {
		vc.reach[b] = vc.cur
	} else {
		var preds []*ssa.BasicBlock
		var conds []string
		seen := map[*ssa.BasicBlock]bool{}
		for _, p := range b.Preds {
			if b.Dominates(p) { // back edge
				continue
			}
			if _, ok := vc.outSt[p]; !ok {
				continue
			}
			if seen[p] {
				continue
			}
			seen[p] = true
			e := vc.edgeTo(p, b)
			if e == "false" {
				continue
			}
			preds = append(preds, p)
			conds = append(conds, e)
		}
		if len(preds) == 0 {
			return // unreachable (e.g. recover block)
		}
		var r string
		if len(conds) == 1 {
			r = conds[0]
		} else {
			r = "(or " + strings.Join(conds, " ") + ")"
		}
		vc.cur = vc.define(fmt.Sprintf("B%d", b.Index), "Bool", r)
		vc.st = vc.mergeStates(b, preds)
		if li, ok := vc.loops[b]; ok {
			vc.loopHeader(b, li, preds)
		} else {
			// phis
			for _, ins := range b.Instrs {
				phi, ok := ins.(*ssa.Phi)
				if !ok {
					break
				}
				var term string
				first := true
				for i := len(b.Preds) - 1; i >= 0; i-- {
					p := b.Preds[i]
					if _, ok := vc.outSt[p]; !ok || vc.edgeTo(p, b) == "false" {
						continue
					}
					v := vc.val(phi.Edges[i])
					if first {
						term = v
						first = false
					} else {
						term = fmt.Sprintf("(ite %s %s %s)", vc.edgeTo(p, b), v, term)
					}
				}
				vc.setVal(phi, term)
			}
		}
		vc.reach[b] = vc.cur
	}
	// When a call comes back on several paths (inlined returns, dispatch candidates) and no loop lies ahead,
	// the rest of the function is verified once per path instead of on a merged state: every goal is then
	// about one concrete path (smaller, simpler and more stable queries).
	_, endsInReturn := b.Instrs[len(b.Instrs)-1].(*ssa.Return)
	vc.runInstrs(b, 0, endsInReturn || len(vc.loops) == 0)
	vc.curInstr = nil
	if vc.done {
		return
	}
	if _, ok := vc.outSt[b]; !ok {
		vc.outSt[b] = vc.st
		vc.outReach[b] = vc.cur
	}
}

// cloneFrame copies the per-function translation state (values, block states) so that a continuation
// can be translated independently; output, obligations and collected returns stay shared.
func (vc *VC) cloneFrame() *VC {
	c := *vc
	c.vals = make(map[ssa.Value]string, len(vc.vals))
	for k, v := range vc.vals {
		c.vals[k] = v
	}
	c.addrs = make(map[ssa.Value]*Addr, len(vc.addrs))
	for k, v := range vc.addrs {
		c.addrs[k] = v
	}
	c.tuples = make(map[ssa.Value][]string, len(vc.tuples))
	for k, v := range vc.tuples {
		c.tuples[k] = v
	}
	c.reach = make(map[*ssa.BasicBlock]string, len(vc.reach))
	for k, v := range vc.reach {
		c.reach[k] = v
	}
	c.outSt = make(map[*ssa.BasicBlock]*State, len(vc.outSt))
	for k, v := range vc.outSt {
		c.outSt[k] = v
	}
	c.outReach = make(map[*ssa.BasicBlock]string, len(vc.outReach))
	for k, v := range vc.outReach {
		c.outReach[k] = v
	}
	c.edge = make(map[[2]int]string, len(vc.edge))
	for k, v := range vc.edge {
		c.edge[k] = v
	}
	c.rangeIt = make(map[ssa.Value]*rangeInfo, len(vc.rangeIt))
	for k, v := range vc.rangeIt {
		c.rangeIt[k] = v
	}
	c.defers = append([]*deferred(nil), vc.defers...)
	c.st = vc.st.clone()
	c.pending = nil
	c.done = false
	if vc.parent == nil {
		c.rootOf = vc.r()
	}
	return &c
}

func (vc *VC) runInstrs(b *ssa.BasicBlock, from int, split bool) {
	for i := from; i < len(b.Instrs); i++ {
		ins := b.Instrs[i]
		if _, ok := ins.(*ssa.Phi); ok {
			continue
		}
		vc.curInstr = ins
		if call, ok := ins.(*ssa.Call); ok && split {
			vc.splitOK = true
			vc.pending = nil
			vc.instr(ins)
			vc.splitOK = false
			if brs := vc.pending; len(brs) > 1 {
				vc.pending = nil
				note0 := vc.pathNote
				for _, br := range brs {
					cl := vc.cloneFrame()
					cl.cur, cl.st = br.cur, br.st
					if br.note != "" {
						cl.pathNote = strings.TrimPrefix(note0+"; "+br.note, "; ")
					}
					cl.assignCallResults(call, br.res)
					cl.afterCall(call)
					cl.runInstrs(b, i+1, split)
					cl.curInstr = nil
					if cl.done {
						continue
					}
					if _, ok := cl.outSt[b]; !ok {
						cl.outSt[b] = cl.st
						cl.outReach[b] = cl.cur
					}
					// the blocks after b, in translation order
					after := false
					for _, nb := range vc.order {
						if nb == b {
							after = true
							continue
						}
						if after {
							cl.block(nb)
							if cl.done {
								break
							}
						}
					}
				}
				vc.done = true
				return
			}
			vc.pending = nil
			continue
		}
		vc.instr(ins)
	}
}

func (vc *VC) assignCallResults(ins *ssa.Call, res []string) {
	sig := ins.Common().Signature()
	switch sig.Results().Len() {
	case 0:
	case 1:
		if len(res) == 1 {
			vc.vals[ins] = res[0]
		} else {
			vc.vals[ins] = vc.declare(ins.Name(), vc.pre.sortOf(ins.Type()))
		}
	default:
		vc.tuples[ins] = res
	}
}

func (vc *VC) loopHeader(b *ssa.BasicBlock, li *loopInfo, entryPreds []*ssa.BasicBlock) {
	// 1. invariants must hold on entry edges: evaluate with phi := entry values
	invs := vc.invariantsFor(li)
	entryPhi := map[ssa.Value]string{}
	for _, ins := range b.Instrs {
		phi, ok := ins.(*ssa.Phi)
		if !ok {
			break
		}
		var term string
		first := true
		for i := len(b.Preds) - 1; i >= 0; i-- {
			p := b.Preds[i]
			if b.Dominates(p) {
				continue
			}
			if _, ok := vc.outSt[p]; !ok || vc.edgeTo(p, b) == "false" {
				continue
			}
			v := vc.val(phi.Edges[i])
			if first {
				term = v
				first = false
			} else {
				term = fmt.Sprintf("(ite %s %s %s)", vc.edgeTo(p, b), v, term)
			}
		}
		entryPhi[phi] = term
	}
	entrySt := vc.st.clone()
	for _, inv := range invs {
		env := vc.loopEnv(b, entrySt, entryPhi)
		vc.oblige(vc.invName(inv, li), "inv-init", fmt.Sprintf("loop %d invariant on entry: %s", li.ord, inv.Text), vc.evalGoal(env, inv.E, inv), inv)
	}
	// 2. havoc loop targets
	loopEntry := vc.st.clone()
	mods := make([]string, 0, len(li.mods))
	for h := range li.mods {
		mods = append(mods, h)
	}
	sort.Strings(mods)
	for _, h := range mods {
		before := ""
		if _, ok := vc.pre.heapSort[h]; !ok {
			if s := vc.heapSortByName(h); s != "" {
				vc.pre.heap(h, s)
			}
		}
		if s, ok := vc.pre.heapSort[h]; ok {
			before = vc.getH(vc.st, h, s)
		}
		vc.havocH(vc.st, h)
		// writes only through known local allocations: everything else is unchanged
		if !li.wild[h] && len(li.roots[h])+len(li.bases[h])+len(li.loadBases[h])+len(li.freshOnly[h]) > 0 && before != "" && strings.HasPrefix(vc.pre.heapSort[h], "(Array Int ") {
			var ne []string
			okAll := true
			if len(li.freshOnly[h]) > 0 {
				ne = append(ne, fmt.Sprintf("(< r %s)", vc.getH(loopEntry, "$next", "Int")))
				for _, a := range li.freshOnly[h] {
					if t, have := vc.vals[a]; have {
						ne = append(ne, fmt.Sprintf("(not (= r %s))", t))
					} else if !li.body[a.Block()] {
						okAll = false
					}
				}
			}
			for _, lb := range li.loadBases[h] {
				// the variable read in the loop must not be written by the loop; its value is the one at loop entry
				u := lb.v.(*ssa.UnOp)
				written := false
				for _, vh := range staticHeaps(u.X) {
					if li.mods[vh] {
						written = true
					}
				}
				if written {
					okAll = false
					break
				}
				t := vc.load(vc.addrOf(u.X), loopEntry)
				if lb.isSlice {
					t = "(s_ref " + t + ")"
				}
				ne = append(ne, fmt.Sprintf("(not (= r %s))", t))
			}
			for _, lb := range li.bases[h] {
				t, have := vc.vals[lb.v]
				if _, isC := lb.v.(*ssa.Const); isC || !have {
					okAll = false
					break
				}
				if lb.isSlice {
					t = "(s_ref " + t + ")"
				}
				ne = append(ne, fmt.Sprintf("(not (= r %s))", t))
			}
			for _, r := range li.roots[h] {
				v, isVal := r.(ssa.Value)
				if !isVal {
					okAll = false
					break
				}
				t, have := vc.vals[v]
				if !have {
					okAll = false
					break
				}
				if _, isSlice := r.(*ssa.MakeSlice); isSlice {
					t = "(s_ref " + t + ")"
				}
				ne = append(ne, fmt.Sprintf("(not (= r %s))", t))
			}
			if okAll {
				after := vc.getH(vc.st, h, vc.pre.heapSort[h])
				vc.assume(fmt.Sprintf("(forall ((r Int)) (! (=> (and %s) (= (select %s r) (select %s r))) :pattern ((select %s r))))", strings.Join(ne, " "), after, before, after))
			}
		}
	}
	for _, ins := range b.Instrs {
		phi, ok := ins.(*ssa.Phi)
		if !ok {
			break
		}
		t := vc.declare(phi.Name(), vc.pre.sortOf(phi.Type()))
		vc.vals[phi] = t
		vc.assumeRange(t, phi.Type())
	}
	// auto invariant for range-over-slice index
	for _, ins := range b.Instrs {
		phi, ok := ins.(*ssa.Phi)
		if !ok {
			break
		}
		if phi.Comment == "rangeindex" {
			if lim := vc.rangeLimit(b, phi); lim != "" {
				vc.assume(fmt.Sprintf("(and (<= (- 1) %s) (< %s %s))", vc.vals[phi], vc.vals[phi], "(ite (> "+lim+" 0) "+lim+" 0)"))
			}
		}
	}
	// visited keys of a map range are keys of the map (if the map is not written in the loop)
	for _, ins := range b.Instrs {
		if nx, ok := ins.(*ssa.Next); ok {
			if ri, ok := vc.rangeIt[nx.Iter]; ok {
				dn, ds, _, _ := vc.mapHeaps(ri.mt)
				if !li.mods[dn] {
					ks := vc.pre.sortOf(ri.mt.Key())
					vis := vc.getH(vc.st, ri.visName, "(Array "+ks+" Bool)")
					dom := fmt.Sprintf("(select %s %s)", vc.getH(vc.st, dn, ds), ri.m)
					vc.assume(fmt.Sprintf("(forall ((j %s)) (! (=> (select %s j) (and (not (= %s 0)) (select %s j))) :pattern ((select %s j))))", ks, vis, ri.m, dom, vis))
				}
			}
		}
	}
	// 3. assume invariants
	for _, inv := range invs {
		env := vc.loopEnv(b, vc.st, nil)
		vc.assume(vc.evalBool(env, inv.E, inv))
	}
}

// rangeLimit finds the len(...) value compared against rangeindex+1 in the header.
func (vc *VC) rangeLimit(b *ssa.BasicBlock, phi *ssa.Phi) string {
	for _, ins := range b.Instrs {
		if bo, ok := ins.(*ssa.BinOp); ok && bo.Op == token.LSS {
			if add, ok := bo.X.(*ssa.BinOp); ok && add.X == phi {
				if _, ok := vc.vals[bo.Y]; ok {
					return vc.val(bo.Y)
				}
				if _, ok := bo.Y.(*ssa.Const); ok {
					return vc.val(bo.Y)
				}
			}
		}
	}
	return ""
}

func (vc *VC) invName(inv *Clause, li *loopInfo) string {
	if len(inv.Labels) > 0 {
		return "[" + strings.Join(inv.Labels, ",") + "]"
	}
	return fmt.Sprintf("loop%d.inv", li.ord)
}

func (vc *VC) invariantsFor(li *loopInfo) []*Clause {
	if vc.contract == nil {
		return nil
	}
	return vc.contract.LoopInv[li.ord]
}

func (vc *VC) backEdge(from, header *ssa.BasicBlock) {
	li := vc.loops[header]
	invs := vc.invariantsFor(li)
	if len(invs) == 0 {
		return
	}
	// index of this pred edge
	phiVals := map[ssa.Value]string{}
	for _, ins := range header.Instrs {
		phi, ok := ins.(*ssa.Phi)
		if !ok {
			break
		}
		for i, p := range header.Preds {
			if p == from {
				phiVals[phi] = vc.val(phi.Edges[i])
			}
		}
	}
	for _, inv := range invs {
		env := vc.loopEnv(header, vc.st, phiVals)
		vc.oblige(vc.invName(inv, li), "inv-step", fmt.Sprintf("loop %d invariant preserved: %s", li.ord, inv.Text), vc.evalGoal(env, inv.E, inv), inv)
	}
}

// ---------- instructions ----------

func (vc *VC) instr(ins ssa.Instruction) {
	switch ins := ins.(type) {
	case *ssa.DebugRef:
		return
	case *ssa.Alloc:
		r := vc.alloc(ins.Type().(*types.Pointer).Elem())
		vc.vals[ins] = r
	case *ssa.FieldAddr:
		base := vc.addrOf(ins.X)
		pt := types.Unalias(ins.X.Type()).Underlying().(*types.Pointer).Elem()
		st := types.Unalias(pt)
		ft := st.Underlying().(*types.Struct).Field(ins.Field).Type()
		var a *Addr
		if base.kind == aObj {
			vc.nilCheck(base, ins.X.Name()+"."+st.Underlying().(*types.Struct).Field(ins.Field).Name())
			a = &Addr{kind: aField, ref: base.ref, styp: base.styp, fidx: ins.Field, base: ft, typ: ft}
		} else {
			vc.nilCheck(base, ins.X.Name())
			na := *base
			na.path = append(append([]pathStep(nil), base.path...), pathStep{field: ins.Field, cont: st})
			na.typ = ft
			a = &na
		}
		a.inter = true
		vc.addrs[ins] = a
		vc.vals[ins] = vc.interiorPtr(a)
	case *ssa.IndexAddr:
		idx := vc.val(ins.Index)
		switch xt := types.Unalias(ins.X.Type()).Underlying().(type) {
		case *types.Slice:
			s := vc.val(ins.X)
			vc.safety("index out of range: "+ins.X.Name()+"["+ins.Index.Name()+"]", fmt.Sprintf("(and (<= 0 %s) (< %s (s_len %s)))", idx, idx, s))
			vc.assume(fmt.Sprintf("(= (idx %s %s) (+ (s_off %s) %s))", s, idx, s, idx))
			a := &Addr{kind: aElem, ref: fmt.Sprintf("(s_ref %s)", s), idx: fmt.Sprintf("(idx %s %s)", s, idx), base: xt.Elem(), typ: xt.Elem(), inter: true}
			vc.addrs[ins] = a
			vc.vals[ins] = vc.interiorPtr(a)
		case *types.Pointer:
			at := types.Unalias(xt.Elem()).Underlying().(*types.Array)
			base := vc.addrOf(ins.X)
			vc.nilCheck(base, ins.X.Name())
			vc.safety("index out of range: "+ins.X.Name()+"["+ins.Index.Name()+"]", fmt.Sprintf("(and (<= 0 %s) (< %s %d))", idx, idx, at.Len()))
			var a *Addr
			if base.kind == aArr {
				a = &Addr{kind: aElem, ref: base.ref, idx: idx, base: at.Elem(), typ: at.Elem(), inter: true}
			} else {
				na := *base
				na.path = append(append([]pathStep(nil), base.path...), pathStep{field: -1, idx: idx, cont: xt.Elem()})
				na.typ = at.Elem()
				na.inter = true
				a = &na
			}
			vc.addrs[ins] = a
			vc.vals[ins] = vc.interiorPtr(a)
		default:
			vc.unsup("IndexAddr on %s", ins.X.Type())
		}
	case *ssa.Field:
		st := types.Unalias(ins.X.Type())
		if !isExpandedStruct(st) {
			vc.vals[ins] = vc.declare(ins.Name(), vc.pre.sortOf(ins.Type()))
			return
		}
		vc.setVal(ins, fmt.Sprintf("(%s %s)", fieldAcc(st, ins.Field), vc.val(ins.X)))
		vc.assumeRange(vc.vals[ins], ins.Type())
	case *ssa.Index:
		idx := vc.val(ins.Index)
		switch xt := types.Unalias(ins.X.Type()).Underlying().(type) {
		case *types.Array:
			vc.safety("index out of range", fmt.Sprintf("(and (<= 0 %s) (< %s %d))", idx, idx, xt.Len()))
			vc.setVal(ins, fmt.Sprintf("(select %s %s)", vc.val(ins.X), idx))
		case *types.Basic: // string
			s := vc.val(ins.X)
			vc.safety("string index out of range", fmt.Sprintf("(and (<= 0 %s) (< %s (slen %s)))", idx, idx, s))
			vc.setVal(ins, fmt.Sprintf("(schar %s %s)", s, idx))
			vc.assumeRange(vc.vals[ins], ins.Type())
		default:
			vc.unsup("Index on %s", ins.X.Type())
		}
	case *ssa.UnOp:
		vc.unop(ins)
	case *ssa.BinOp:
		vc.binop(ins)
	case *ssa.Store:
		a := vc.addrOf(ins.Addr)
		if a.kind == aObj || a.kind == aCell || a.kind == aArr {
			vc.nilCheck(a, "store through "+ins.Addr.Name())
		}
		vc.store(a, vc.st, vc.val(ins.Val))
	case *ssa.Phi:
		// handled at block entry
	case *ssa.Call:
		res := vc.call(ins, ins.Common())
		vc.assignCallResults(ins, res)
		if len(vc.pending) <= 1 {
			vc.afterCall(ins)
		}
	case *ssa.Extract:
		tup, ok := vc.tuples[ins.Tuple]
		if !ok || ins.Index >= len(tup) {
			vc.vals[ins] = vc.declare(ins.Name(), vc.pre.sortOf(ins.Type()))
			return
		}
		vc.vals[ins] = tup[ins.Index]
	case *ssa.MakeInterface:
		bn, un := vc.pre.boxFns(ins.X.Type())
		vc.setVal(ins, fmt.Sprintf("(%s %s)", bn, vc.val(ins.X)))
		vc.assume(fmt.Sprintf("(and (= (%s %s) %s) (= (typeof %s) %d))", un, vc.vals[ins], vc.val(ins.X), vc.vals[ins], vc.pre.typeID(ins.X.Type())))
	case *ssa.ChangeInterface:
		vc.vals[ins] = vc.val(ins.X)
	case *ssa.ChangeType:
		vc.vals[ins] = vc.val(ins.X)
		if a, ok := vc.addrs[ins.X]; ok {
			vc.addrs[ins] = a
		}
	case *ssa.Convert:
		vc.convert(ins)
	case *ssa.TypeAssert:
		vc.typeAssert(ins)
	case *ssa.MakeMap:
		mt := types.Unalias(ins.Type()).Underlying().(*types.Map)
		r := vc.freshRef()
		dn, ds, vn, vs := vc.mapHeaps(mt)
		ksort := vc.pre.sortOf(mt.Key())
		vc.setH(vc.st, dn, ds, fmt.Sprintf("(store %s %s ((as const (Array %s Bool)) false))", vc.getH(vc.st, dn, ds), r, ksort))
		_ = vn
		_ = vs
		card := vc.pre.cardFn("(Array " + ksort + " Bool)")
		vc.assume(fmt.Sprintf("(= (%s ((as const (Array %s Bool)) false)) 0)", card, ksort))
		vc.vals[ins] = r
	case *ssa.MakeSlice:
		st := types.Unalias(ins.Type()).Underlying().(*types.Slice)
		r := vc.freshRef()
		n, s := vc.arrHeap(st.Elem())
		l := vc.val(ins.Len)
		vc.safety("makeslice: len out of range", fmt.Sprintf("(>= %s 0)", l))
		vc.setH(vc.st, n, s, fmt.Sprintf("(store %s %s %s)", vc.getH(vc.st, n, s), r, vc.pre.zeroOf(types.NewArray(st.Elem(), 0))))
		vc.setVal(ins, fmt.Sprintf("(mk_slice %s 0 %s)", r, l))
	case *ssa.Slice:
		vc.sliceOp(ins)
	case *ssa.Lookup:
		vc.lookup(ins)
	case *ssa.MapUpdate:
		vc.mapUpdate(ins.Map, vc.val(ins.Key), vc.val(ins.Value), false)
	case *ssa.Range:
		vc.rangeStart(ins)
	case *ssa.Next:
		vc.next(ins)
	case *ssa.If:
		b := ins.Block()
		c := vc.val(ins.Cond)
		vc.edge[[2]int{b.Index, 0}] = vc.define(fmt.Sprintf("E%d_0", b.Index), "Bool", fmt.Sprintf("(and %s %s)", vc.cur, c))
		vc.edge[[2]int{b.Index, 1}] = vc.define(fmt.Sprintf("E%d_1", b.Index), "Bool", fmt.Sprintf("(and %s (not %s))", vc.cur, c))
		vc.finishBlock(b)
	case *ssa.Jump:
		b := ins.Block()
		vc.edge[[2]int{b.Index, 0}] = vc.cur
		vc.finishBlock(b)
	case *ssa.Return:
		vc.ret(ins)
	case *ssa.Panic:
		if vc.contract == nil || !vc.contract.MayPanic {
			vc.safety("explicit panic reachable", "false")
		}
		vc.outSt[ins.Block()] = vc.st
		vc.outReach[ins.Block()] = "false"
	case *ssa.Defer:
		d := &deferred{call: ins}
		d.flag = fmt.Sprintf("$defer%d", len(vc.defers))
		vc.pre.heap(d.flag, "Bool")
		// arguments are evaluated now
		for _, a := range ins.Call.Args {
			d.args = append(d.args, vc.val(a))
		}
		if ins.Call.IsInvoke() {
			d.recv = vc.val(ins.Call.Value)
		}
		vc.st.h[d.flag] = "true"
		vc.defers = append(vc.defers, d)
	case *ssa.RunDefers:
		vc.runDefers()
	case *ssa.MakeClosure:
		c := vc.declare(ins.Name(), "Int")
		vc.vals[ins] = c
		vc.pre.declFun("fv_fn", "(Int) Int")
		vc.pre.declFun("fv_recv", "(Int) Int")
		if f, ok := ins.Fn.(*ssa.Function); ok {
			if strings.HasSuffix(f.Name(), "$bound") && len(ins.Bindings) == 1 && vc.pre.sortOf(ins.Bindings[0].Type()) == "Int" {
				vc.assume(fmt.Sprintf("(and (not (= %s 0)) (= (fv_fn %s) %d) (= (fv_recv %s) %s))", c, c, vc.P.fnID(funcKey(f)), c, vc.val(ins.Bindings[0])))
			} else {
				vc.assume(fmt.Sprintf("(and (not (= %s 0)) (= (fv_fn %s) %d))", c, c, vc.P.fnID(funcKey(f))))
			}
		}
	case *ssa.Go:
		vc.unsup("go statement")
	case *ssa.Send, *ssa.Select, *ssa.MakeChan:
		if _, isSel := ins.(*ssa.Select); isSel {
			// sequential view of select: any ready case may be taken, received values are arbitrary
			vc.r().defaultExt["select statement (any case may be chosen; received values arbitrary)"] = true
		} else {
			vc.unsup("channel operation %T", ins)
		}
		if v, ok := ins.(ssa.Value); ok {
			if tup, ok := v.Type().(*types.Tuple); ok {
				var ts []string
				for i := 0; i < tup.Len(); i++ {
					ts = append(ts, vc.declare(v.Name(), vc.pre.sortOf(tup.At(i).Type())))
				}
				vc.tuples[v] = ts
			} else {
				vc.vals[v] = vc.declare(v.Name(), vc.pre.sortOf(v.Type()))
			}
		}
	case *ssa.SliceToArrayPointer:
		vc.unsup("slice to array pointer")
		vc.vals[ins] = vc.declare(ins.Name(), "Int")
	default:
		vc.unsup("instruction %T", ins)
		if v, ok := ins.(ssa.Value); ok {
			vc.vals[v] = vc.declare(v.Name(), vc.pre.sortOf(v.Type()))
		}
	}
}

func (vc *VC) interiorPtr(a *Addr) string {
	vc.pre.declFun("iptr", "(Int Int) Int")
	return fmt.Sprintf("(iptr %s %d)", nonEmpty(a.ref, "0"), vc.nextN())
}

func nonEmpty(s, d string) string {
	if s == "" {
		return d
	}
	return s
}

func (vc *VC) finishBlock(b *ssa.BasicBlock) {
	vc.outSt[b] = vc.st
	vc.outReach[b] = vc.cur
	for i, s := range b.Succs {
		if s.Dominates(b) {
			if _, isLoop := vc.loops[s]; isLoop {
				save := vc.cur
				vc.cur = vc.edge[[2]int{b.Index, i}]
				vc.backEdge(b, s)
				vc.cur = save
			}
		}
	}
}

func (vc *VC) unop(ins *ssa.UnOp) {
	switch ins.Op {
	case token.MUL: // load
		a := vc.addrOf(ins.X)
		if a.kind == aObj || a.kind == aCell || a.kind == aArr {
			vc.nilCheck(a, "load through "+ins.X.Name())
		}
		vc.setVal(ins, vc.load(a, vc.st))
		vc.assumeRange(vc.vals[ins], ins.Type())
	case token.NOT:
		vc.setVal(ins, fmt.Sprintf("(not %s)", vc.val(ins.X)))
	case token.SUB:
		vc.setVal(ins, fmt.Sprintf("(- %s)", vc.val(ins.X)))
	case token.ARROW:
		vc.unsup("channel receive")
		vc.vals[ins] = vc.declare(ins.Name(), vc.pre.sortOf(ins.Type()))
	case token.XOR:
		vc.vals[ins] = vc.declare(ins.Name(), vc.pre.sortOf(ins.Type()))
		vc.assumeRange(vc.vals[ins], ins.Type())
	default:
		vc.unsup("unop %s", ins.Op)
		vc.vals[ins] = vc.declare(ins.Name(), vc.pre.sortOf(ins.Type()))
	}
}

func (vc *VC) binop(ins *ssa.BinOp) {
	x, y := vc.val(ins.X), vc.val(ins.Y)
	xt := types.Unalias(ins.X.Type()).Underlying()
	sortX := vc.pre.sortOf(ins.X.Type())
	var term string
	switch ins.Op {
	case token.ADD:
		if sortX == "Str" {
			term = fmt.Sprintf("(sconcat %s %s)", x, y)
		} else {
			term = fmt.Sprintf("(+ %s %s)", x, y)
		}
	case token.SUB:
		term = fmt.Sprintf("(- %s %s)", x, y)
	case token.MUL:
		term = fmt.Sprintf("(* %s %s)", x, y)
	case token.QUO:
		if sortX == "Int" {
			vc.safety("integer division by zero", fmt.Sprintf("(not (= %s 0))", y))
			term = fmt.Sprintf("(div %s %s)", x, y)
		} else {
			term = fmt.Sprintf("(/ %s %s)", x, y)
		}
	case token.REM:
		vc.safety("integer division by zero", fmt.Sprintf("(not (= %s 0))", y))
		term = fmt.Sprintf("(mod %s %s)", x, y)
	case token.EQL, token.NEQ:
		var eq string
		if _, isSlice := xt.(*types.Slice); isSlice {
			// only comparison with nil is legal
			other := ins.X
			if c, ok := ins.X.(*ssa.Const); ok && c.Value == nil {
				other = ins.Y
			}
			eq = fmt.Sprintf("(= (s_ref %s) 0)", vc.val(other))
		} else {
			eq = fmt.Sprintf("(= %s %s)", x, y)
		}
		if ins.Op == token.NEQ {
			eq = "(not " + eq + ")"
		}
		term = eq
	case token.LSS:
		term = fmt.Sprintf("(< %s %s)", x, y)
	case token.LEQ:
		term = fmt.Sprintf("(<= %s %s)", x, y)
	case token.GTR:
		term = fmt.Sprintf("(> %s %s)", x, y)
	case token.GEQ:
		term = fmt.Sprintf("(>= %s %s)", x, y)
	case token.LAND:
		term = fmt.Sprintf("(and %s %s)", x, y)
	case token.LOR:
		term = fmt.Sprintf("(or %s %s)", x, y)
	default:
		// bit operations, shifts: uninterpreted result within type range
		vc.vals[ins] = vc.declare(ins.Name(), vc.pre.sortOf(ins.Type()))
		vc.assumeRange(vc.vals[ins], ins.Type())
		return
	}
	if sortX == "Str" && (ins.Op == token.LSS || ins.Op == token.LEQ || ins.Op == token.GTR || ins.Op == token.GEQ) {
		vc.vals[ins] = vc.declare(ins.Name(), "Bool")
		return
	}
	vc.setVal(ins, term)
	if sortX == "Str" && ins.Op == token.ADD {
		vc.assume(fmt.Sprintf("(= (slen %s) (+ (slen %s) (slen %s)))", vc.vals[ins], x, y))
		vc.assumeRange(vc.vals[ins], ins.Type())
	}
}

func (vc *VC) convert(ins *ssa.Convert) {
	from, to := types.Unalias(ins.X.Type()).Underlying(), types.Unalias(ins.Type()).Underlying()
	x := vc.val(ins.X)
	fs, ts := vc.pre.sortOf(ins.X.Type()), vc.pre.sortOf(ins.Type())
	switch {
	case fs == "Int" && ts == "Int":
		fb, ok1 := from.(*types.Basic)
		tb, ok2 := to.(*types.Basic)
		if ok1 && ok2 && intFits(fb, tb) {
			vc.vals[ins] = x
			return
		}
		r := vc.declare(ins.Name(), "Int")
		vc.assumeRange(r, ins.Type())
		if f := vc.rangeFact(x, ins.Type(), vc.st); f != "" {
			vc.assume(fmt.Sprintf("(=> %s (= %s %s))", f, r, x))
		} else {
			vc.assume(fmt.Sprintf("(= %s %s)", r, x))
		}
		vc.vals[ins] = r
	case fs == "Str" && ts == "Slice": // []byte(s)
		ref := vc.freshRef()
		vc.pre.declFun("sbytes", "(Str) (Array Int Int)")
		n, s := vc.arrHeap(types.Typ[types.Uint8])
		vc.setH(vc.st, n, s, fmt.Sprintf("(store %s %s (sbytes %s))", vc.getH(vc.st, n, s), ref, x))
		vc.setVal(ins, fmt.Sprintf("(mk_slice %s 0 (slen %s))", ref, x))
		vc.assume(fmt.Sprintf("(and (= %s (s2c %s)) (= (c2s (s2c %s)) %s))", vc.contentOf(vc.vals[ins], vc.st), x, x, x))
	case fs == "Slice" && ts == "Str": // string(b)
		vc.pre.declFun("bytes2str", "((Array Int Int) Int Int) Str")
		n, s := vc.arrHeap(types.Typ[types.Uint8])
		vc.setVal(ins, fmt.Sprintf("(bytes2str (select %s (s_ref %s)) (s_off %s) (s_len %s))", vc.getH(vc.st, n, s), x, x, x))
		vc.assume(fmt.Sprintf("(= (slen %s) (s_len %s))", vc.vals[ins], x))
		vc.assume(fmt.Sprintf("(and (= %s (c2s %s)) (= (s2c %s) %s))", vc.vals[ins], vc.contentOf(x, vc.st), vc.vals[ins], vc.contentOf(x, vc.st)))
	case fs == ts:
		vc.vals[ins] = x
	case fs == "Int" && ts == "Str":
		vc.vals[ins] = vc.declare(ins.Name(), "Str")
	case fs == "Int" && ts == "Real":
		vc.setVal(ins, fmt.Sprintf("(to_real %s)", x))
	case fs == "Real" && ts == "Int":
		vc.vals[ins] = vc.declare(ins.Name(), "Int")
	default:
		vc.vals[ins] = vc.declare(ins.Name(), ts)
	}
}

func intFits(from, to *types.Basic) bool {
	rank := func(b *types.Basic) (bits int, signed bool) {
		switch b.Kind() {
		case types.Int8:
			return 8, true
		case types.Int16:
			return 16, true
		case types.Int32:
			return 32, true
		case types.Int, types.Int64, types.UntypedInt, types.UntypedRune:
			return 64, true
		case types.Uint8:
			return 8, false
		case types.Uint16:
			return 16, false
		case types.Uint32:
			return 32, false
		case types.Uint, types.Uint64, types.Uintptr:
			return 64, false
		}
		return 64, true
	}
	fb, fsn := rank(from)
	tb, tsn := rank(to)
	if fsn == tsn {
		return fb <= tb
	}
	if !fsn && tsn {
		return fb < tb
	}
	return false
}

func (vc *VC) typeAssert(ins *ssa.TypeAssert) {
	x := vc.val(ins.X)
	at := ins.AssertedType
	var ok, val string
	if _, isIface := types.Unalias(at).Underlying().(*types.Interface); isIface {
		iid := vc.pre.typeID(at)
		ok = fmt.Sprintf("(and (not (= %s inil)) (implements (typeof %s) %d))", x, x, iid)
		if types.Unalias(at).Underlying().(*types.Interface).NumMethods() == 0 {
			ok = fmt.Sprintf("(not (= %s inil))", x)
		}
		val = x
		vc.noteIfaceTarget(at)
	} else {
		bn, un := vc.pre.boxFns(at)
		ok = fmt.Sprintf("(= (typeof %s) %d)", x, vc.pre.typeID(at))
		val = fmt.Sprintf("(%s %s)", un, x)
		vc.assume(fmt.Sprintf("(=> %s (= (%s %s) %s))", ok, bn, val, x))
	}
	if ins.CommaOk {
		okv := vc.define(ins.Name()+"_ok", "Bool", ok)
		v := vc.define(ins.Name()+"_v", vc.pre.sortOf(at), fmt.Sprintf("(ite %s %s %s)", okv, val, vc.pre.zeroOf(at)))
		vc.tuples[ins] = []string{v, okv}
		return
	}
	vc.safety("type assertion may fail: "+ins.X.Name()+".("+typeStr(at)+")", ok)
	vc.setVal(ins, val)
}

// noteIfaceTarget records implements() ground facts for interface type it.
func (vc *VC) noteIfaceTarget(it types.Type) {
	key := typeStr(it)
	if vc.pre.ifaceImpls[key] {
		return
	}
	vc.pre.ifaceImpls[key] = true
	iid := vc.pre.typeID(it)
	iface := types.Unalias(it).Underlying().(*types.Interface)
	for _, t0 := range vc.P.concreteTypes() {
		for _, t := range []types.Type{t0, types.NewPointer(t0)} {
			if types.Implements(t, iface) {
				vc.pre.axioms = append(vc.pre.axioms, fmt.Sprintf("(assert (implements %d %d))", vc.pre.typeID(t), iid))
			} else {
				vc.pre.axioms = append(vc.pre.axioms, fmt.Sprintf("(assert (not (implements %d %d)))", vc.pre.typeID(t), iid))
			}
		}
	}
}

func (vc *VC) sliceOp(ins *ssa.Slice) {
	var lo, hi string
	if ins.Low != nil {
		lo = vc.val(ins.Low)
	} else {
		lo = "0"
	}
	switch xt := types.Unalias(ins.X.Type()).Underlying().(type) {
	case *types.Slice:
		s := vc.val(ins.X)
		if ins.High != nil {
			hi = vc.val(ins.High)
			// high may go up to cap; we only know len: treat > len as unsafe
			vc.safety("slice bounds out of range", fmt.Sprintf("(and (<= 0 %s) (<= %s %s) (<= %s (s_len %s)))", lo, lo, hi, hi, s))
		} else {
			hi = fmt.Sprintf("(s_len %s)", s)
			vc.safety("slice bounds out of range", fmt.Sprintf("(and (<= 0 %s) (<= %s %s))", lo, lo, hi))
		}
		vc.setVal(ins, fmt.Sprintf("(mk_slice (s_ref %s) (+ (s_off %s) %s) (- %s %s))", s, s, lo, hi, lo))
	case *types.Basic: // string
		s := vc.val(ins.X)
		if ins.High != nil {
			hi = vc.val(ins.High)
		} else {
			hi = fmt.Sprintf("(slen %s)", s)
		}
		vc.safety("string slice bounds out of range", fmt.Sprintf("(and (<= 0 %s) (<= %s %s) (<= %s (slen %s)))", lo, lo, hi, hi, s))
		vc.setVal(ins, fmt.Sprintf("(ssub %s %s %s)", s, lo, hi))
		vc.assume(fmt.Sprintf("(= (slen %s) (- %s %s))", vc.vals[ins], hi, lo))
		vc.assumeRange(vc.vals[ins], ins.Type())
	case *types.Pointer: // *[N]T
		at := types.Unalias(xt.Elem()).Underlying().(*types.Array)
		base := vc.addrOf(ins.X)
		vc.nilCheck(base, ins.X.Name())
		if ins.High != nil {
			hi = vc.val(ins.High)
		} else {
			hi = fmt.Sprintf("%d", at.Len())
		}
		vc.safety("slice bounds out of range", fmt.Sprintf("(and (<= 0 %s) (<= %s %s) (<= %s %d))", lo, lo, hi, hi, at.Len()))
		if base.kind == aArr {
			vc.setVal(ins, fmt.Sprintf("(mk_slice %s %s (- %s %s))", base.ref, lo, hi, lo))
		} else {
			// array embedded elsewhere: copy semantics approximation (fresh backing holding current contents)
			ref := vc.freshRef()
			n, s := vc.arrHeap(at.Elem())
			vc.setH(vc.st, n, s, fmt.Sprintf("(store %s %s %s)", vc.getH(vc.st, n, s), ref, vc.load(base, vc.st)))
			vc.setVal(ins, fmt.Sprintf("(mk_slice %s %s (- %s %s))", ref, lo, hi, lo))
			vc.warn("slice of embedded array modelled as a copy")
		}
	default:
		vc.unsup("slice of %s", ins.X.Type())
		vc.vals[ins] = vc.declare(ins.Name(), vc.pre.sortOf(ins.Type()))
	}
}

func (vc *VC) mapRead(mt *types.Map, m, k string, st *State) (ok, val string) {
	dn, ds, vn, vs := vc.mapHeaps(mt)
	ok = fmt.Sprintf("(and (not (= %s 0)) (select (select %s %s) %s))", m, vc.getH(st, dn, ds), m, k)
	val = fmt.Sprintf("(ite %s (select (select %s %s) %s) %s)", ok, vc.getH(st, vn, vs), m, k, vc.pre.zeroOf(mt.Elem()))
	return
}

func (vc *VC) lookup(ins *ssa.Lookup) {
	switch xt := types.Unalias(ins.X.Type()).Underlying().(type) {
	case *types.Map:
		m, k := vc.val(ins.X), vc.val(ins.Index)
		ok, val := vc.mapRead(xt, m, k, vc.st)
		// nil map: domain empty
		okv := vc.define(ins.Name()+"_ok", "Bool", fmt.Sprintf("(and (not (= %s 0)) %s)", m, ok))
		v := vc.define(ins.Name()+"_v", vc.pre.sortOf(xt.Elem()), fmt.Sprintf("(ite %s %s %s)", okv, val, vc.pre.zeroOf(xt.Elem())))
		vc.assumeRange(v, xt.Elem())
		if ins.CommaOk {
			vc.tuples[ins] = []string{v, okv}
		} else {
			vc.vals[ins] = v
		}
	case *types.Basic:
		s, i := vc.val(ins.X), vc.val(ins.Index)
		vc.safety("string index out of range", fmt.Sprintf("(and (<= 0 %s) (< %s (slen %s)))", i, i, s))
		vc.setVal(ins, fmt.Sprintf("(schar %s %s)", s, i))
		vc.assumeRange(vc.vals[ins], ins.Type())
	default:
		vc.unsup("lookup on %s", ins.X.Type())
	}
}

func (vc *VC) mapUpdate(mv ssa.Value, k, v string, del bool) {
	mt := types.Unalias(mv.Type()).Underlying().(*types.Map)
	m := vc.val(mv)
	dn, ds, vn, vs := vc.mapHeaps(mt)
	if !del {
		vc.safety("assignment to entry in nil map", fmt.Sprintf("(not (= %s 0))", m))
	}
	ksort := vc.pre.sortOf(mt.Key())
	card := vc.pre.cardFn("(Array " + ksort + " Bool)")
	d := vc.getH(vc.st, dn, ds)
	oldDom := fmt.Sprintf("(select %s %s)", d, m)
	if del {
		newDom := vc.define("dom", "(Array "+ksort+" Bool)", fmt.Sprintf("(store %s %s false)", oldDom, k))
		vc.assume(fmt.Sprintf("(= (%s %s) (- (%s %s) (ite (select %s %s) 1 0)))", card, newDom, card, oldDom, oldDom, k))
		// deleting from a nil map is a no-op
		vc.setH(vc.st, dn, ds, fmt.Sprintf("(ite (= %s 0) %s (store %s %s %s))", m, d, d, m, newDom))
		return
	}
	newDom := vc.define("dom", "(Array "+ksort+" Bool)", fmt.Sprintf("(store %s %s true)", oldDom, k))
	vc.assume(fmt.Sprintf("(= (%s %s) (+ (%s %s) (ite (select %s %s) 0 1)))", card, newDom, card, oldDom, oldDom, k))
	vc.setH(vc.st, dn, ds, fmt.Sprintf("(store %s %s %s)", d, m, newDom))
	h := vc.getH(vc.st, vn, vs)
	vc.setH(vc.st, vn, vs, fmt.Sprintf("(store %s %s (store (select %s %s) %s %s))", h, m, h, m, k, v))
}

func (vc *VC) rangeStart(ins *ssa.Range) {
	mt, ok := types.Unalias(ins.X.Type()).Underlying().(*types.Map)
	if !ok {
		vc.unsup("range over %s", ins.X.Type())
		vc.vals[ins] = "0"
		return
	}
	ri := &rangeInfo{m: vc.val(ins.X), mt: mt, visName: fmt.Sprintf("$visited:%s", ins.Name())}
	ksort := vc.pre.sortOf(mt.Key())
	vc.pre.heap(ri.visName, "(Array "+ksort+" Bool)")
	vc.st.h[ri.visName] = vc.define("vis", "(Array "+ksort+" Bool)", fmt.Sprintf("((as const (Array %s Bool)) false)", ksort))
	vc.assume(fmt.Sprintf("(= (%s %s) 0)", vc.pre.cardFn("(Array "+ksort+" Bool)"), vc.st.h[ri.visName]))
	vc.rangeIt[ins] = ri
	vc.vals[ins] = "0"
}

func (vc *VC) next(ins *ssa.Next) {
	ri, ok := vc.rangeIt[ins.Iter]
	if !ok {
		vc.unsup("next on non-map iterator")
		tup := ins.Type().(*types.Tuple)
		var ts []string
		for i := 0; i < tup.Len(); i++ {
			ts = append(ts, vc.declare(ins.Name(), vc.pre.sortOf(tup.At(i).Type())))
		}
		vc.tuples[ins] = ts
		return
	}
	ksort := vc.pre.sortOf(ri.mt.Key())
	vsort := "(Array " + ksort + " Bool)"
	okv := vc.declare(ins.Name()+"_ok", "Bool")
	k := vc.declare(ins.Name()+"_k", ksort)
	vis := vc.getH(vc.st, ri.visName, vsort)
	dn, ds, _, _ := vc.mapHeaps(ri.mt)
	dom := fmt.Sprintf("(select %s %s)", vc.getH(vc.st, dn, ds), ri.m)
	inDom, val := vc.mapRead(ri.mt, ri.m, k, vc.st)
	v := vc.define(ins.Name()+"_v", vc.pre.sortOf(ri.mt.Elem()), val)
	vc.assume(fmt.Sprintf("(=> %s (and (not (= %s 0)) %s (not (select %s %s))))", okv, ri.m, inDom, vis, k))
	vc.assume(fmt.Sprintf("(=> (not %s) (or (= %s 0) (forall ((j %s)) (! (=> (select %s j) (select %s j)) :pattern ((select %s j))))))", okv, ri.m, ksort, dom, vis, dom))
	vc.assumeRange(k, ri.mt.Key())
	vc.assumeRange(v, ri.mt.Elem())
	// when the iteration is over and the map was not written in the loop, the visited set IS the key set
	if li := vc.loopOf(ins.Block()); li != nil && !li.mods[dn] {
		vc.assume(fmt.Sprintf("(=> (not %s) (or (= %s 0) (= %s %s)))", okv, ri.m, vis, dom))
	}
	vc.setH(vc.st, ri.visName, vsort, fmt.Sprintf("(store %s %s true)", vis, k))
	cardf := vc.pre.cardFn(vsort)
	vc.assume(fmt.Sprintf("(=> %s (= (%s %s) (+ (%s %s) 1)))", okv, cardf, vc.getH(vc.st, ri.visName, vsort), cardf, vis))
	vc.assume(fmt.Sprintf("(>= (%s %s) 0)", cardf, vis))
	vc.tuples[ins] = []string{okv, k, v}
}

// loopOf returns the innermost loop containing block b (or nil).
func (vc *VC) loopOf(b *ssa.BasicBlock) *loopInfo {
	var best *loopInfo
	for _, li := range vc.loops {
		if li.body[b] && (best == nil || len(li.body) < len(best.body)) {
			best = li
		}
	}
	return best
}

func (vc *VC) runDefers() {
	for i := len(vc.defers) - 1; i >= 0; i-- {
		d := vc.defers[i]
		flag := vc.getH(vc.st, d.flag, "Bool")
		if flag == "false" {
			continue
		}
		com := d.call.Common()
		if vc.isNoopCall(com) {
			continue
		}
		if flag == "true" {
			vc.curInstr = d.call
			vc.callWith(com, d.args, d.recv, d.call)
			continue
		}
		// conditional defer: run on a copy and merge
		before := vc.st.clone()
		saveCur := vc.cur
		vc.cur = vc.define("R", "Bool", fmt.Sprintf("(and %s %s)", vc.cur, flag))
		vc.curInstr = d.call
		vc.callWith(com, d.args, d.recv, d.call)
		after := vc.st
		afterCur := vc.cur
		// merge: if flag then after else before
		merged := before.clone()
		names := map[string]bool{}
		for k := range after.h {
			names[k] = true
		}
		keys := make([]string, 0)
		for k := range names {
			keys = append(keys, k)
		}
		sort.Strings(keys)
		for _, k := range keys {
			s := vc.pre.heapSort[k]
			a, b := vc.getH(after, k, s), vc.getH(before, k, s)
			if a != b {
				merged.h[k] = vc.define(k, s, fmt.Sprintf("(ite %s %s %s)", flag, a, b))
			}
		}
		vc.st = merged
		vc.cur = vc.define("R", "Bool", fmt.Sprintf("(or (and %s (not %s)) %s)", saveCur, flag, afterCur))
	}
}

func (vc *VC) ret(ins *ssa.Return) {
	b := ins.Block()
	vc.retCount++
	c := vc.contract
	var res []TV
	sig := vc.fn.Signature
	for i, r := range ins.Results {
		res = append(res, TV{T: vc.val(r), Ty: sig.Results().At(i).Type()})
	}
	if vc.parent != nil {
		// inlined callee: record the return point, the caller merges them
		note := fmt.Sprintf("%s returns at %s", shortKey(vc.key), vc.P.Fset.Position(ins.Pos()))
		if vc.pathNote != "" {
			note = vc.pathNote + "; " + note
		}
		*vc.retsP = append(*vc.retsP, inlRet{cur: vc.cur, st: vc.st, res: res, note: note})
		vc.outSt[b] = vc.st
		vc.outReach[b] = "false"
		return
	}
	vc.emitUnmatchedAssertCalls()
	vc.oblige(fmt.Sprintf("cover:return%d", vc.retCount), "cover", "return reachable", "true", nil)
	vc.r().obls[len(vc.r().obls)-1].Cover = true
	if c != nil {
		env := vc.entryEnv(vc.st, vc.entry)
		vc.bindResults(env, sig, res)
		for _, ga := range c.Epilogue {
			vc.ghostAssign(env, ga, vc.st)
		}
		for i, eo := range c.ErrorOnly {
			if !vc.clauseOn(eo.Clause) || len(res) == 0 {
				continue
			}
			last := res[len(res)-1]
			if vc.pre.sortOf(last.Ty) != "Iface" {
				continue
			}
			flag := vc.getH(vc.st, fmt.Sprintf("$errfrom:%d", i), "Bool")
			extra := vc.evalGoal(env, eo.Clause.E, eo.Clause)
			name := "[" + strings.Join(eo.Clause.Labels, ",") + "]"
			vc.oblige(name, "post", fmt.Sprintf("return #%d (%s): an error is returned only after a failure of %s", vc.retCount, vc.P.Fset.Position(ins.Pos()), strings.Join(eo.Callees, ", ")),
				fmt.Sprintf("(=> (not (= %s inil)) (or %s %s))", last.T, flag, extra), eo.Clause)
		}
		type pend struct {
			name, goal string
			e          *Clause
		}
		var pends []pend
		var allGoals strings.Builder
		for _, e := range c.Ensures {
			if !vc.clauseOn(e) || e.Trusted {
				continue
			}
			name := "[" + strings.Join(e.Labels, ",") + "]"
			if len(e.Labels) == 0 {
				name = unlabelledName(e)
			}
			g := vc.evalGoal(env, e.E, e)
			allGoals.WriteString(g)
			pends = append(pends, pend{name, g, e})
		}
		vc.assumeGlobalsIn(allGoals.String())
		for _, p := range pends {
			vc.oblige(p.name, "post", fmt.Sprintf("return #%d (%s): %s", vc.retCount, vc.P.Fset.Position(ins.Pos()), p.e.Text), p.goal, p.e)
		}
		if c.HasMod {
			vc.frameCheck(c)
		}
	}
	vc.outSt[b] = vc.st
	vc.outReach[b] = "false"
}

func (vc *VC) frameCheck(c *Contract) {
	allowed := vc.resolveModifies(c)
	var names []string
	for k := range vc.st.h {
		names = append(names, k)
	}
	sort.Strings(names)
	for _, k := range names {
		if allowed[k] || strings.HasPrefix(k, "$defer") || strings.HasPrefix(k, "$visited") || strings.HasPrefix(k, "$errfrom") || strings.HasPrefix(k, "$buf") || k == "$next" {
			continue
		}
		s := vc.pre.heapSort[k]
		cur, old := vc.getH(vc.st, k, s), vc.getH(vc.entry, k, s)
		if cur == old {
			continue
		}
		// freshly allocated objects may differ: only refs below the entry $next are compared
		if strings.HasPrefix(s, "(Array Int ") {
			vc.oblige("frame", "frame", "heap "+k+" unchanged on pre-existing objects (modifies clause)",
				fmt.Sprintf("(forall ((r Int)) (! (=> (and (< 0 r) (< r %s)) (= (select %s r) (select %s r))) :pattern ((select %s r))))", vc.getH(vc.entry, "$next", "Int"), cur, old, cur), nil)
		} else {
			vc.oblige("frame", "frame", "variable "+k+" unchanged (modifies clause)", fmt.Sprintf("(= %s %s)", cur, old), nil)
		}
	}
}

// finish renders spec axioms that mention ghost functions used by this VC.
func (vc *VC) finish() {
	var b strings.Builder
	for _, ax := range vc.P.Spec.Axioms {
		used := false
		for _, n := range specNames(ax.E) {
			if vc.pre.funDone[q("gf:"+n)] {
				used = true
			}
		}
		for _, l := range ax.Labels {
			if strings.HasPrefix(l, "use:") && vc.pre.funDone[q("gf:"+strings.TrimPrefix(l, "use:"))] {
				used = true
			}
		}
		if !used {
			continue
		}
		env := &Env{vc: vc, pkgPath: vc.P.Spec.AxiomPkg[ax], vars: map[string]TV{}, cur: &State{h: map[string]string{}}, old: &State{h: map[string]string{}}, clause: ax, strong: true}
		var axSide []string
		env.side = &axSide
		func() {
			defer func() {
				if r := recover(); r != nil {
					if ee, ok := r.(evalErr); ok {
						vc.unsup("axiom: %s", string(ee))
						return
					}
					panic(r)
				}
			}()
			t := env.eval(ax.E)
			if len(axSide) > 0 {
				t.T = "(and " + strings.Join(axSide, " ") + " " + t.T + ")"
			}
			fmt.Fprintf(&b, "(assert %s) ; axiom %s:%d\n", t.T, filepathBase(ax.File), ax.Line)
		}()
	}
	vc.axiomText = b.String()
}

func filepathBase(p string) string {
	if i := strings.LastIndex(p, "/"); i >= 0 {
		return p[i+1:]
	}
	return p
}

func specNames(e Expr) []string {
	var out []string
	var walk func(e Expr)
	walk = func(e Expr) {
		switch x := e.(type) {
		case *ECall:
			if id, ok := x.Fun.(*EIdent); ok {
				out = append(out, id.Name)
			}
			walk(x.Fun)
			for _, a := range x.Args {
				walk(a)
			}
		case *EUnary:
			walk(x.X)
		case *EBinary:
			walk(x.X)
			walk(x.Y)
		case *ESel:
			walk(x.X)
		case *EIndex:
			walk(x.X)
			walk(x.I)
		case *ESliceE:
			walk(x.X)
			if x.Lo != nil {
				walk(x.Lo)
			}
			if x.Hi != nil {
				walk(x.Hi)
			}
		case *EQuant:
			walk(x.Body)
		case *ETypeAssert:
			walk(x.X)
		}
	}
	walk(e)
	return out
}

// GenerateLemmas builds the unit that checks the lemmas labelled for the property: closed statements
// over constant globals, ghost functions and their axioms (no code).
func (vc *VC) GenerateLemmas(lemmas []*Clause) (err error) {
	defer func() {
		if r := recover(); r != nil {
			if ee, ok := r.(evalErr); ok {
				err = fmt.Errorf("lemmas: %s", string(ee))
				return
			}
			panic(r)
		}
	}()
	vc.cur = "true"
	vc.st = &State{h: map[string]string{}}
	vc.entry = vc.st
	for _, l := range lemmas {
		if l.Kind == "orderfree" {
			obls, trusted, err := vc.P.EvalOrderClause(l, vc.key)
			if err != nil {
				return err
			}
			for _, tr := range trusted {
				vc.assumedUsed[tr] = true
			}
			vc.obls = append(vc.obls, obls...)
			continue
		}
		if l.Kind == "nocall" {
			obls, err := vc.P.EvalNoCallClause(l, vc.key)
			if err != nil {
				return err
			}
			vc.obls = append(vc.obls, obls...)
			continue
		}
		if l.Kind == "recovers" {
			obls, err := vc.P.EvalRecoversClause(l, vc.key)
			if err != nil {
				return err
			}
			vc.obls = append(vc.obls, obls...)
			continue
		}
		if l.Kind == "noeq" {
			obls, err := vc.P.EvalNoEqClause(l, vc.key)
			if err != nil {
				return err
			}
			vc.obls = append(vc.obls, obls...)
			continue
		}
		if l.Kind == "secretflow" {
			obls, trusted, err := vc.P.EvalFlowClause(l, vc.key)
			if err != nil {
				return err
			}
			for _, tr := range trusted {
				vc.assumedUsed[tr] = true
			}
			vc.obls = append(vc.obls, obls...)
			continue
		}
		if l.Kind == "tables" {
			obls, err := vc.P.EvalTablesClause(l, vc.key)
			if err != nil {
				return err
			}
			vc.groundUsed["transition tables and pool maps (evaluated by running the real constructors New() and fsm_pool.Init)"] = true
			vc.obls = append(vc.obls, obls...)
			continue
		}
		if l.Kind == "roundtrip" || l.Kind == "jsoncompat" || l.Kind == "jsonoverwrite" {
			t0 := time.Now()
			ok, why, steps, trusted, err := vc.P.EvalJSONClause(l, vc.P.Spec.LemmaPkg[l])
			if err != nil {
				return err
			}
			for _, tr := range trusted {
				vc.assumedUsed[tr] = true
			}
			o := &Obligation{Func: vc.key, Name: "[" + strings.Join(l.Labels, ",") + "]", Kind: "ground", Detail: fmt.Sprintf("%s %s (%d derivation steps)", l.Kind, l.Text, steps), Clause: l, Goal: "true", Guard: "true",
				Solver: "json-judgement", Ms: time.Since(t0).Milliseconds(), Result: "unsat", Site: token.Position{Filename: l.File, Line: l.Line}}
			if !ok {
				o.Result, o.Model = "sat", "judgement fails: "+why
				o.Replay = vc.P.jsonReplay(l, vc.P.Spec.LemmaPkg[l])
			}
			vc.obls = append(vc.obls, o)
			continue
		}
		if l.Kind == "ground" {
			t0 := time.Now()
			ok, wit, steps, err := vc.P.EvalGround(l, vc.P.Spec.LemmaPkg[l])
			if err != nil {
				return err
			}
			o := &Obligation{Func: vc.key, Name: "[" + strings.Join(l.Labels, ",") + "]", Kind: "ground", Detail: fmt.Sprintf("%s (%d evaluation steps)", l.Text, steps), Clause: l, Goal: "true", Guard: "true",
				Solver: "ground-eval", Ms: time.Since(t0).Milliseconds(), Result: "unsat", Site: token.Position{Filename: l.File, Line: l.Line}}
			if !ok {
				o.Result, o.Model = "sat", "ground counterexample: "+wit
			}
			vc.obls = append(vc.obls, o)
			continue
		}
		env := &Env{vc: vc, pkgPath: vc.P.Spec.LemmaPkg[l], vars: map[string]TV{}, cur: vc.st, old: vc.st}
		g := vc.evalGoal(env, l.E, l)
		vc.assumeGlobalsIn(g)
		name := "[" + strings.Join(l.Labels, ",") + "]"
		vc.oblige(name, "lemma", l.Text, g, l)
	}
	return nil
}

// emitUnmatchedAssertCalls: a call-site assertion whose callee is not called anywhere in the function cannot hold its
// promise (the step it guards is gone): it becomes one failing obligation, once per function.
func (vc *VC) emitUnmatchedAssertCalls() {
	r := vc.r()
	c := r.contract
	if c == nil || vc.parent != nil || r.unmatchedDone {
		return
	}
	r.unmatchedDone = true
	for _, ac := range c.AssertCall {
		if !vc.clauseOn(ac) {
			continue
		}
		found := false
		for _, b := range r.fn.Blocks {
			for _, ins := range b.Instrs {
				var com *ssa.CallCommon
				switch x := ins.(type) {
				case *ssa.Call:
					com = x.Common()
				case *ssa.Defer:
					com = x.Common()
				}
				if com != nil && calleeMatches(calleeKey(com), ac.Callee) {
					found = true
				}
			}
		}
		if !found {
			name := "[" + strings.Join(ac.Labels, ",") + "]"
			if len(ac.Labels) == 0 {
				name = fmt.Sprintf("assert@call:%s@%d", ac.Callee, ac.Line)
			}
			// unconditional: the return at which this is emitted may itself be unreachable
			saved := vc.cur
			vc.cur = "true"
			vc.oblige(name, "assert", fmt.Sprintf("the function no longer calls %s, which the contract constrains: %s", ac.Callee, ac.Text), "false", ac)
			vc.cur = saved
		}
	}
}

// afterCall maintains the flags of the erroronly clauses: a listed callee has just returned; remember whether it failed.
func (vc *VC) afterCall(call *ssa.Call) {
	c := vc.r().contract
	if c == nil || len(c.ErrorOnly) == 0 {
		return
	}
	key := calleeKey(call.Common())
	sig := call.Common().Signature()
	n := sig.Results().Len()
	if n == 0 || vc.pre.sortOf(sig.Results().At(n-1).Type()) != "Iface" {
		return
	}
	var errTerm string
	if n == 1 {
		errTerm = vc.vals[call]
	} else if t, ok := vc.tuples[call]; ok && len(t) == n {
		errTerm = t[n-1]
	}
	if errTerm == "" {
		return
	}
	for i, eo := range c.ErrorOnly {
		for _, cal := range eo.Callees {
			if calleeMatches(key, cal) {
				name := fmt.Sprintf("$errfrom:%d", i)
				old := vc.getH(vc.st, name, "Bool")
				vc.setH(vc.st, name, "Bool", fmt.Sprintf("(or %s (not (= %s inil)))", old, errTerm))
			}
		}
	}
}
