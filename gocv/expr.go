package main

// Contract expression language: a Go-expression subset extended with
//   old(e)  e ==> e  e <==> e  forall x T, y U :: e  exists x T :: e
//   k in m   $ghost  result
// Parsed by a small Pratt parser into the AST below; evaluated to SMT terms by eval.go.

import (
	"fmt"
	"strconv"
	"strings"
	"unicode"
)

type Expr interface{}

type EIdent struct{ Name string }
type EInt struct{ Val string }
type EStr struct{ Val string }
type EUnary struct {
	Op string
	X  Expr
}
type EBinary struct {
	Op   string
	X, Y Expr
}
type ECall struct {
	Fun  Expr
	Args []Expr
}
type EIndex struct{ X, I Expr }
type ESliceE struct{ X, Lo, Hi Expr }
type ESel struct {
	X   Expr
	Sel string
}
type ETypeAssert struct {
	X Expr
	T string // Go type text
}
type EQuant struct {
	Forall bool
	Vars   []Binder
	Body   Expr
}
type ECond struct{ C, A, B Expr } // ite(c,a,b)
type Binder struct {
	Name string
	Type string // Go type text
}

type tok struct {
	kind string // id, int, str, op, eof
	val  string
	pos  int
}

func lexExpr(s string) ([]tok, error) {
	var out []tok
	i := 0
	for i < len(s) {
		c := s[i]
		switch {
		case c == ' ' || c == '\t' || c == '\n' || c == '\r':
			i++
		case unicode.IsLetter(rune(c)) || c == '_' || c == '$':
			j := i + 1
			for j < len(s) && (unicode.IsLetter(rune(s[j])) || unicode.IsDigit(rune(s[j])) || s[j] == '_' || s[j] == '$') {
				j++
			}
			out = append(out, tok{"id", s[i:j], i})
			i = j
		case unicode.IsDigit(rune(c)):
			j := i + 1
			for j < len(s) && (unicode.IsDigit(rune(s[j])) || s[j] == 'x' || (s[j] >= 'a' && s[j] <= 'f') || (s[j] >= 'A' && s[j] <= 'F') || s[j] == '_') {
				j++
			}
			out = append(out, tok{"int", s[i:j], i})
			i = j
		case c == '"':
			j := i + 1
			for j < len(s) && s[j] != '"' {
				if s[j] == '\\' {
					j++
				}
				j++
			}
			if j >= len(s) {
				return nil, fmt.Errorf("unterminated string at %d", i)
			}
			lit := s[i+1 : j]
			if u, err := strconv.Unquote(s[i : j+1]); err == nil {
				lit = u
			}
			out = append(out, tok{"str", lit, i})
			i = j + 1
		default:
			ops := []string{"<==>", "==>", "::", "==", "!=", "<=", ">=", "&&", "||", "<", ">", "+", "-", "*", "/", "%", "!", "(", ")", "[", "]", ".", ",", ":", "{", "}", "?", "&"}
			matched := false
			for _, op := range ops {
				if strings.HasPrefix(s[i:], op) {
					out = append(out, tok{"op", op, i})
					i += len(op)
					matched = true
					break
				}
			}
			if !matched {
				return nil, fmt.Errorf("unexpected character %q at %d in %q", c, i, s)
			}
		}
	}
	out = append(out, tok{"eof", "", len(s)})
	return out, nil
}

type exprParser struct {
	toks []tok
	p    int
	src  string
}

func ParseExpr(s string) (e Expr, err error) {
	toks, err := lexExpr(s)
	if err != nil {
		return nil, err
	}
	ps := &exprParser{toks: toks, src: s}
	defer func() {
		if r := recover(); r != nil {
			if pe, ok := r.(parseErr); ok {
				err = fmt.Errorf("%s in %q", string(pe), s)
				return
			}
			panic(r)
		}
	}()
	e = ps.parseTop()
	if ps.peek().kind != "eof" {
		ps.fail("unexpected token %q", ps.peek().val)
	}
	return e, nil
}

type parseErr string

func (p *exprParser) fail(f string, a ...interface{}) {
	panic(parseErr(fmt.Sprintf(f, a...) + fmt.Sprintf(" at offset %d", p.peek().pos)))
}
func (p *exprParser) peek() tok { return p.toks[p.p] }
func (p *exprParser) next() tok {
	t := p.toks[p.p]
	if p.p < len(p.toks)-1 {
		p.p++
	}
	return t
}
func (p *exprParser) isOp(v string) bool { t := p.peek(); return t.kind == "op" && t.val == v }
func (p *exprParser) isId(v string) bool { t := p.peek(); return t.kind == "id" && t.val == v }
func (p *exprParser) expectOp(v string) {
	if !p.isOp(v) {
		p.fail("expected %q, got %q", v, p.peek().val)
	}
	p.next()
}

// top := quant | iff
func (p *exprParser) parseTop() Expr {
	if p.isId("forall") || p.isId("exists") {
		return p.parseQuant()
	}
	return p.parseIff()
}

func (p *exprParser) parseQuant() Expr {
	fa := p.next().val == "forall"
	var vars []Binder
	for {
		t := p.next()
		if t.kind != "id" {
			p.fail("expected binder name")
		}
		names := []string{t.val}
		// type text: tokens up to ',' or '::' at depth 0
		start := p.peek().pos
		depth := 0
		for {
			t := p.peek()
			if t.kind == "eof" {
				p.fail("unterminated quantifier binder")
			}
			if t.kind == "op" && (t.val == "(" || t.val == "[") {
				depth++
			}
			if t.kind == "op" && (t.val == ")" || t.val == "]") {
				depth--
			}
			if depth == 0 && t.kind == "op" && (t.val == "," || t.val == "::") {
				break
			}
			p.next()
		}
		ty := strings.TrimSpace(p.src[start:p.peek().pos])
		for _, n := range names {
			vars = append(vars, Binder{n, ty})
		}
		if p.isOp(",") {
			p.next()
			continue
		}
		p.expectOp("::")
		break
	}
	body := p.parseTop()
	return &EQuant{Forall: fa, Vars: vars, Body: body}
}

func (p *exprParser) parseIff() Expr {
	x := p.parseImpl()
	for p.isOp("<==>") {
		p.next()
		y := p.parseImpl()
		x = &EBinary{"<==>", x, y}
	}
	return x
}

func (p *exprParser) parseImpl() Expr {
	x := p.parseOr()
	if p.isOp("==>") {
		p.next()
		var y Expr
		if p.isId("forall") || p.isId("exists") {
			y = p.parseQuant()
		} else {
			y = p.parseImpl()
		}
		return &EBinary{"==>", x, y}
	}
	return x
}

func (p *exprParser) parseOr() Expr {
	x := p.parseAnd()
	for p.isOp("||") {
		p.next()
		y := p.parseAnd()
		x = &EBinary{"||", x, y}
	}
	return x
}

func (p *exprParser) parseAnd() Expr {
	x := p.parseCmp()
	for p.isOp("&&") {
		p.next()
		var y Expr
		if p.isId("forall") || p.isId("exists") {
			y = p.parseQuant()
		} else {
			y = p.parseCmp()
		}
		x = &EBinary{"&&", x, y}
	}
	return x
}

func (p *exprParser) parseCmp() Expr {
	x := p.parseAdd()
	for {
		t := p.peek()
		if t.kind == "op" && (t.val == "==" || t.val == "!=" || t.val == "<" || t.val == "<=" || t.val == ">" || t.val == ">=") {
			p.next()
			y := p.parseAdd()
			x = &EBinary{t.val, x, y}
			continue
		}
		if t.kind == "id" && t.val == "in" {
			p.next()
			y := p.parseAdd()
			x = &EBinary{"in", x, y}
			continue
		}
		return x
	}
}

func (p *exprParser) parseAdd() Expr {
	x := p.parseMul()
	for p.isOp("+") || p.isOp("-") {
		op := p.next().val
		y := p.parseMul()
		x = &EBinary{op, x, y}
	}
	return x
}

func (p *exprParser) parseMul() Expr {
	x := p.parseUnary()
	for p.isOp("*") || p.isOp("/") || p.isOp("%") {
		op := p.next().val
		y := p.parseUnary()
		x = &EBinary{op, x, y}
	}
	return x
}

func (p *exprParser) parseUnary() Expr {
	if p.isOp("!") || p.isOp("-") {
		op := p.next().val
		x := p.parseUnary()
		return &EUnary{op, x}
	}
	return p.parsePostfix()
}

func (p *exprParser) parsePostfix() Expr {
	x := p.parsePrimary()
	for {
		switch {
		case p.isOp("."):
			p.next()
			if p.isOp("(") {
				// type assertion: capture type text to matching paren
				p.next()
				start := p.peek().pos
				depth := 0
				for !(depth == 0 && p.isOp(")")) {
					if p.peek().kind == "eof" {
						p.fail("unterminated type assertion")
					}
					if p.isOp("(") || p.isOp("[") {
						depth++
					}
					if p.isOp(")") || p.isOp("]") {
						depth--
					}
					p.next()
				}
				ty := strings.TrimSpace(p.src[start:p.peek().pos])
				p.next()
				x = &ETypeAssert{x, ty}
				continue
			}
			t := p.next()
			if t.kind != "id" {
				p.fail("expected selector name")
			}
			x = &ESel{x, t.val}
		case p.isOp("("):
			p.next()
			var args []Expr
			for !p.isOp(")") {
				args = append(args, p.parseTop())
				if p.isOp(",") {
					p.next()
				} else if !p.isOp(")") {
					p.fail("expected , or ) in call")
				}
			}
			p.next()
			x = &ECall{x, args}
		case p.isOp("["):
			p.next()
			var lo, hi Expr
			if !p.isOp(":") {
				lo = p.parseTop()
			}
			if p.isOp(":") {
				p.next()
				if !p.isOp("]") {
					hi = p.parseTop()
				}
				p.expectOp("]")
				x = &ESliceE{x, lo, hi}
			} else {
				p.expectOp("]")
				x = &EIndex{x, lo}
			}
		default:
			return x
		}
	}
}

func (p *exprParser) parsePrimary() Expr {
	t := p.peek()
	switch t.kind {
	case "int":
		p.next()
		return &EInt{strings.ReplaceAll(t.val, "_", "")}
	case "str":
		p.next()
		return &EStr{t.val}
	case "id":
		p.next()
		return &EIdent{t.val}
	case "op":
		if t.val == "(" {
			p.next()
			e := p.parseTop()
			p.expectOp(")")
			return e
		}
	}
	p.fail("unexpected token %q", t.val)
	return nil
}

func exprString(e Expr) string {
	switch e := e.(type) {
	case *EIdent:
		return e.Name
	case *EInt:
		return e.Val
	case *EStr:
		return fmt.Sprintf("%q", e.Val)
	case *EUnary:
		return e.Op + exprString(e.X)
	case *EBinary:
		return "(" + exprString(e.X) + " " + e.Op + " " + exprString(e.Y) + ")"
	case *ECall:
		var a []string
		for _, x := range e.Args {
			a = append(a, exprString(x))
		}
		return exprString(e.Fun) + "(" + strings.Join(a, ", ") + ")"
	case *EIndex:
		return exprString(e.X) + "[" + exprString(e.I) + "]"
	case *ESel:
		return exprString(e.X) + "." + e.Sel
	case *EQuant:
		return "quant"
	}
	return "?"
}
