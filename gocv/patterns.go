package main

import (
	"os"
	"sort"
	"strings"
)

// Trigger inference for the quantifiers gocv generates from contracts. Candidates are the terms
// through which a bound variable indexes a slice, a map or a heap: (idx T v) and (select A v) with
// T, A free of bound variables. When every bound variable has a candidate, the candidates are given
// to the solver as patterns (fewer, more predictable instantiations than the solver's own choice).

func sexprEnd(s string, i int) int {
	// s[i] == '(' -> index just past the matching ')'; otherwise past the atom
	if s[i] != '(' {
		j := i
		if s[j] == '|' {
			j++
			for j < len(s) && s[j] != '|' {
				j++
			}
			return j + 1
		}
		for j < len(s) && s[j] != ' ' && s[j] != ')' && s[j] != '(' {
			j++
		}
		return j
	}
	depth := 0
	for j := i; j < len(s); j++ {
		switch s[j] {
		case '|':
			j++
			for j < len(s) && s[j] != '|' {
				j++
			}
		case '(':
			depth++
		case ')':
			depth--
			if depth == 0 {
				return j + 1
			}
		}
	}
	return len(s)
}

func containsAny(s string, vars []string) bool {
	for _, v := range vars {
		if strings.Contains(s, v) {
			return true
		}
	}
	return false
}

// inferPatterns returns pattern attribute text (possibly empty) for a quantifier over vars with body.
func inferPatterns(vars []string, body string) string {
	if os.Getenv("GOCV_NOPAT") != "" {
		return ""
	}
	cands := map[string][]string{}
	seen := map[string]bool{}
	for _, head := range []string{"(idx ", "(select "} {
		from := 0
		for {
			k := strings.Index(body[from:], head)
			if k < 0 {
				break
			}
			start := from + k
			a1 := start + len(head)
			e1 := sexprEnd(body, a1)
			if e1 >= len(body) || body[e1] != ' ' {
				from = start + 1
				continue
			}
			a2 := e1 + 1
			e2 := sexprEnd(body, a2)
			if e2 >= len(body) || body[e2] != ')' {
				from = start + 1
				continue
			}
			arg1, arg2 := body[a1:e1], body[a2:e2]
			term := body[start : e2+1]
			if badPatternTerm(term) {
				from = start + 1
				continue
			}
			for _, v := range vars {
				if arg2 == v && !containsAny(arg1, vars) && !seen[term] {
					seen[term] = true
					cands[v] = append(cands[v], term)
				}
			}
			from = start + 1
		}
	}
	for _, v := range vars {
		if len(cands[v]) == 0 {
			return ""
		}
		sort.Strings(cands[v])
		if len(cands[v]) > 4 {
			cands[v] = cands[v][:4]
		}
	}
	var pats []string
	if len(vars) == 1 {
		for _, c := range cands[vars[0]] {
			pats = append(pats, ":pattern ("+c+")")
		}
		return strings.Join(pats, " ")
	}
	// multi-patterns: base choice, then vary one variable at a time
	base := make([]string, len(vars))
	for i, v := range vars {
		base[i] = cands[v][0]
	}
	pats = append(pats, ":pattern ("+strings.Join(base, " ")+")")
	for i, v := range vars {
		for _, alt := range cands[v][1:] {
			p := append([]string(nil), base...)
			p[i] = alt
			pats = append(pats, ":pattern ("+strings.Join(p, " ")+")")
			if len(pats) >= 5 {
				return strings.Join(pats, " ")
			}
		}
	}
	return strings.Join(pats, " ")
}

// solvers reject patterns that contain logical connectives or arithmetic comparison
func badPatternTerm(t string) bool {
	for _, k := range []string{"(ite ", "(and ", "(or ", "(not ", "(=> ", "(= ", "(< ", "(<= ", "(> ", "(>= ", "(forall ", "(exists ", "(+ ", "(- ", "(* "} {
		if strings.Contains(t, k) {
			return true
		}
	}
	return false
}

// topArgs splits "(op a1 a2 ...)" into op and its arguments.
func topArgs(s string) (string, []string) {
	if len(s) < 2 || s[0] != '(' {
		return "", nil
	}
	k := strings.IndexByte(s, ' ')
	if k < 0 {
		return "", nil
	}
	op := s[1:k]
	var args []string
	j := k + 1
	for j < len(s)-1 {
		if s[j] == ' ' {
			j++
			continue
		}
		e := sexprEnd(s, j)
		args = append(args, s[j:e])
		j = e
	}
	return op, args
}

// splitGoal breaks a goal of the form (and ...), (=> H (and ...)) or nested combinations into
// independent sub-goals whose conjunction is the goal.
func splitGoal(g string) []string {
	op, args := topArgs(g)
	switch {
	case op == "and" && len(args) > 1:
		var out []string
		for _, a := range args {
			out = append(out, splitGoal(a)...)
		}
		return out
	case op == "=>" && len(args) == 2:
		sub := splitGoal(args[1])
		if len(sub) <= 1 {
			return []string{g}
		}
		var out []string
		for _, s := range sub {
			out = append(out, "(=> "+args[0]+" "+s+")")
		}
		return out
	case op == "!" && len(args) >= 1:
		return []string{g}
	}
	return []string{g}
}
