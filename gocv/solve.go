package main

import (
	"bytes"
	"context"
	"fmt"
	"os"
	"os/exec"
	"path/filepath"
	"regexp"
	"runtime"
	"strings"
	"sync"
	"sync/atomic"
	"time"
)

type solverSpec struct {
	name string
	argv func(file string, timeoutMs int, incremental bool) []string
}

var solvers = []solverSpec{
	{"z3-new", func(f string, t int, inc bool) []string {
		if inc {
			// deterministic resource limit (t is in milliseconds-equivalents: about 6M units per second)
			return []string{"z3-new", fmt.Sprintf("rlimit=%d", t*6000), fmt.Sprintf("-t:%d", t*5), f}
		}
		return []string{"z3-new", fmt.Sprintf("-t:%d", t), f}
	}},
	{"z3", func(f string, t int, inc bool) []string { return []string{"z3", fmt.Sprintf("-t:%d", t), f} }},
	{"cvc5", func(f string, t int, inc bool) []string {
		a := []string{"cvc5", fmt.Sprintf("--tlimit-per=%d", t), "--lang=smt2"}
		if inc {
			a = append(a, "--incremental")
		}
		return append(a, f)
	}},
}

func obligationAssert(o *Obligation) string {
	if o.Cover {
		return fmt.Sprintf("(assert %s)", o.Guard)
	}
	return fmt.Sprintf("(assert (and %s (not %s)))", o.Guard, o.Goal)
}

// Script renders the incremental script for all obligations of the VC.
func (vc *VC) Script(obls []*Obligation) string {
	var b strings.Builder
	b.WriteString(vc.pre.Text())
	b.WriteString(vc.specAxioms())
	fmt.Fprintf(&b, "(set-option :timeout %d)\n", vc.quickMs)
	oi := 0
	for i := 0; i <= len(vc.body); i++ {
		for oi < len(obls) && obls[oi].Pos == i {
			o := obls[oi]
			if o.Cover {
				fmt.Fprintf(&b, "(set-option :timeout 500)\n")
			}
			fmt.Fprintf(&b, "(push 1)\n; OBL %d %s %s\n%s\n(check-sat)\n(pop 1)\n", oi, o.Name, o.Kind, obligationAssert(o))
			if o.Cover {
				fmt.Fprintf(&b, "(set-option :timeout %d)\n", vc.quickMs)
			}
			oi++
		}
		if i < len(vc.body) {
			b.WriteString(vc.body[i])
			b.WriteString("\n")
		}
	}
	return b.String()
}

var symRe = regexp.MustCompile(`\|[^|]*\|`)

// coneOfInfluence returns, in order, the body lines (before pos) that the given text depends on.
func (vc *VC) coneOfInfluence(text string, pos int) []string {
	if vc.defLine == nil || vc.defLineN != len(vc.body) {
		if vc.defLine == nil {
			vc.defLine = map[string]int{}
		}
		for i := vc.defLineN; i < len(vc.body); i++ {
			l := vc.body[i]
			// (define-fun |name| ... / (declare-const |name| ...
			if j := strings.Index(l, " |"); j >= 0 {
				if k := strings.Index(l[j+2:], "|"); k >= 0 {
					vc.defLine[l[j+1:j+2+k+1]] = i
				}
			}
		}
		vc.defLineN = len(vc.body)
	}
	need := map[int]bool{}
	var stack []string
	stack = append(stack, symRe.FindAllString(text, -1)...)
	seen := map[string]bool{}
	for len(stack) > 0 {
		s := stack[len(stack)-1]
		stack = stack[:len(stack)-1]
		if seen[s] {
			continue
		}
		seen[s] = true
		i, ok := vc.defLine[s]
		if !ok || i >= pos || need[i] {
			continue
		}
		need[i] = true
		l := vc.body[i]
		if strings.HasPrefix(l, "(define-fun") || strings.Contains(l, "(assert ") {
			stack = append(stack, symRe.FindAllString(l, -1)...)
		}
	}
	var out []string
	for i := 0; i < pos && i < len(vc.body); i++ {
		if need[i] {
			out = append(out, vc.body[i])
		}
	}
	return out
}

func (vc *VC) Standalone(o *Obligation, model bool) string {
	var b strings.Builder
	b.WriteString(vc.pre.Text())
	b.WriteString(vc.specAxioms())
	for _, l := range vc.coneOfInfluence(obligationAssert(o), o.Pos) {
		b.WriteString(l)
		b.WriteString("\n")
	}
	fmt.Fprintf(&b, "; OBL %s %s %s\n%s\n(check-sat)\n", o.Func, o.Name, o.Detail, obligationAssert(o))
	if model {
		b.WriteString("(get-model)\n")
	}
	return b.String()
}

type runResult struct {
	solver string
	lines  []string
	raw    string
	dur    time.Duration
	err    error
}

// solverSlots bounds the number of solver processes running at once (time limits are wall-clock,
// so oversubscribing the cores turns easy obligations into timeouts)
var solverSlots = make(chan struct{}, maxInt(2, runtime.NumCPU()-2))

func maxInt(a, b int) int {
	if a > b {
		return a
	}
	return b
}

func runSolver(ctx context.Context, s solverSpec, file string, timeoutMs int, inc bool, hard time.Duration) runResult {
	solverSlots <- struct{}{}
	defer func() { <-solverSlots }()
	if ctx.Err() != nil {
		return runResult{solver: s.name}
	}
	argv := s.argv(file, timeoutMs, inc)
	cctx, cancel := context.WithTimeout(ctx, hard)
	defer cancel()
	cmd := exec.CommandContext(cctx, argv[0], argv[1:]...)
	var out bytes.Buffer
	cmd.Stdout = &out
	cmd.Stderr = &out
	t0 := time.Now()
	err := cmd.Run()
	d := time.Since(t0)
	if os.Getenv("GOCV_TRACE") != "" && d > time.Second {
		fmt.Fprintf(os.Stderr, "TRACE %.1fs %s %s\n", d.Seconds(), s.name, filepath.Base(file))
	}
	raw := out.String()
	var lines []string
	for _, l := range strings.Split(raw, "\n") {
		l = strings.TrimSpace(l)
		if l == "sat" || l == "unsat" || l == "unknown" || l == "timeout" {
			if l == "timeout" {
				l = "unknown"
			}
			lines = append(lines, l)
		}
	}
	if strings.Contains(raw, "(error") {
		// z3 4.8 reports an error for get-model after unsat; tolerate only that
		bad := false
		for _, l := range strings.Split(raw, "\n") {
			if strings.Contains(l, "(error") && !strings.Contains(l, "model is not available") && !strings.Contains(l, "cannot get model") && !strings.Contains(l, "Cannot get model") {
				bad = true
				err = fmt.Errorf("solver error: %s", l)
				break
			}
		}
		if !bad {
			err = nil
		}
	} else {
		// non-zero exit without error text (z3 exits 1 after get-model on unsat), or killed at the hard
		// time limit: whatever answers were printed count, the rest is unknown
		err = nil
	}
	return runResult{solver: s.name, lines: lines, raw: raw, dur: d, err: err}
}

// Discharge runs all obligations of vc, each as its own query sliced to its cone of influence:
// first z3-new alone with the quick time limit, then (if not discharged) the three solvers raced with
// the slow limit. Every solver process runs under a hard wall-clock limit.
// slowFailBudget: after this many obligations of one unit failed the raced slow path the others are not raced any more
const slowFailBudget = 4

func (vc *VC) Discharge(obls []*Obligation, workDir string, quickMs, slowMs int) error {
	if len(obls) == 0 {
		return nil
	}
	vc.quickMs = quickMs
	vc.coneOfInfluence("", 0) // build the definition index before the parallel workers use it
	base := filepath.Join(workDir, sanitize(vc.key))
	var wg sync.WaitGroup
	var mu sync.Mutex
	var firstErr error
	setErr := func(err error) {
		mu.Lock()
		if firstErr == nil {
			firstErr = err
		}
		mu.Unlock()
	}
	slowSem := make(chan struct{}, slowFailBudget)
	// one obligation, standalone: deterministic first pass, then the raced slow path
	unitGate := make(chan struct{}, 16)
	single := func(i int, o *Obligation) {
		// at most 16 obligations of one unit are in work at a time (as many as there are solver slots), so that the
		// ones still waiting see the failures of the ones before them
		unitGate <- struct{}{}
		defer func() { <-unitGate }()
		if !o.Cover && atomic.LoadInt32(&vc.slowFails) >= slowFailBudget {
			o.Result, o.Solver = "unknown", "not attempted: unit already has failing obligations"
			o.Model = "not attempted: " + fmt.Sprint(slowFailBudget) + " obligations of this unit had already failed on every solver"
			return
		}
		sf := fmt.Sprintf("%s.obl%d.smt2", base, i)
		if err := os.WriteFile(sf, []byte(vc.Standalone(o, !o.Cover)), 0o644); err != nil {
			setErr(err)
			return
		}
		ms := quickMs
		if o.Cover {
			ms = 500
		}
		var r runResult
		if o.Cover {
			// reachability probes are satisfiable queries: wall-clock limit, the answer never turns into an alarm
			r = runSolver(context.Background(), solvers[0], sf, ms, false, time.Duration(ms+1500)*time.Millisecond)
		} else {
			r = runSolver(context.Background(), solvers[0], sf, ms, true, time.Duration(ms*6+6000)*time.Millisecond)
		}
		if r.err != nil {
			setErr(fmt.Errorf("%s obligation %s: %v (script %s)", vc.key, o.Name, r.err, sf))
			return
		}
		res := "unknown"
		if len(r.lines) > 0 {
			res = r.lines[0]
		}
		o.Result, o.Solver, o.Ms = res, "z3-new", r.dur.Milliseconds()
		if !o.Cover && res == "unsat" && vc.crossCheck {
			// thorough tier: the other two solvers must not contradict a proof
			for _, sv := range solvers[1:] {
				rr := runSolver(context.Background(), sv, sf, quickMs, false, time.Duration(quickMs+3000)*time.Millisecond)
				if rr.err == nil && len(rr.lines) > 0 {
					switch rr.lines[0] {
					case "sat":
						setErr(fmt.Errorf("%s obligation %s: solvers disagree (z3-new unsat, %s sat; script %s)", vc.key, o.Name, sv.name, sf))
						return
					case "unsat":
						o.Solver += "+" + sv.name
					}
				}
				o.Ms += rr.dur.Milliseconds()
			}
		}
		if o.Cover || res == "unsat" {
			os.Remove(sf)
			return
		}
		if res == "sat" {
			o.Model = r.raw
		}
		if res != "sat" {
			// a conjunction that is too much at once is often easy piecewise
			if parts := splitGoal(o.Goal); len(parts) > 1 && len(parts) <= 40 {
				all := true
				var tot int64
				for pi, pg := range parts {
					po := &Obligation{Func: o.Func, Name: o.Name, Detail: o.Detail, Pos: o.Pos, Guard: o.Guard, Goal: pg}
					pf := fmt.Sprintf("%s.obl%d.part%d.smt2", base, i, pi)
					if err := os.WriteFile(pf, []byte(vc.Standalone(po, false)), 0o644); err != nil {
						all = false
						break
					}
					pr := runSolver(context.Background(), solvers[0], pf, ms*2, true, time.Duration(ms*12+6000)*time.Millisecond)
					os.Remove(pf)
					tot += pr.dur.Milliseconds()
					if pr.err != nil || len(pr.lines) == 0 || pr.lines[0] != "unsat" {
						all = false
						break
					}
				}
				if all {
					o.Result, o.Solver, o.Ms = "unsat", fmt.Sprintf("z3-new (goal split in %d)", len(parts)), o.Ms+tot
					os.Remove(sf)
					return
				}
			}
		}
		if vc.knownOpen[o.Name] {
			return // a recorded finding: one bounded attempt is enough to see that it still fails
		}
		// a unit that already has several obligations nobody could discharge is failing whatever the rest says: the
		// remaining undischarged ones keep the verdict of the first pass instead of costing a raced slow attempt each
		// (a changed function can raise hundreds of them; the run's verdict for the property is the same)
		slowSem <- struct{}{} // at most slowFailBudget slow attempts of one unit at a time, so that the budget can bite
		defer func() { <-slowSem }()
		if atomic.LoadInt32(&vc.slowFails) >= slowFailBudget {
			o.Solver += " (slow path skipped: unit already has failing obligations)"
			if o.Model == "" {
				o.Model = "not attempted on the slow path: " + fmt.Sprint(slowFailBudget) + " obligations of this unit had already failed it"
			}
			return
		}
		rr := raceSolvers(sf, slowMs)
		if rr.err != nil {
			setErr(fmt.Errorf("%s obligation %s: %v (script %s)", vc.key, o.Name, rr.err, sf))
			return
		}
		o.Result, o.Solver, o.Ms = rr.result, rr.solver, o.Ms+rr.dur.Milliseconds()
		if rr.result != "unsat" {
			atomic.AddInt32(&vc.slowFails, 1)
			o.Model = rr.raw
		} else {
			os.Remove(sf)
		}
	}
	// obligations raised at the same program point under the same path condition are first tried together
	type gkey struct {
		pos   int
		guard string
	}
	groups := map[gkey][]int{}
	var order []gkey
	for i, o := range obls {
		if o.Kind == "ground" {
			continue // decided by evaluation
		}
		k := gkey{o.Pos, o.Guard}
		if o.Cover {
			k = gkey{-1 - i, ""}
		}
		if _, ok := groups[k]; !ok {
			order = append(order, k)
		}
		groups[k] = append(groups[k], i)
	}
	for _, k := range order {
		idxs := groups[k]
		wg.Add(1)
		go func(idxs []int) {
			defer wg.Done()
			if len(idxs) > 1 {
				var goals []string
				for _, i := range idxs {
					goals = append(goals, obls[i].Goal)
				}
				comb := &Obligation{Func: vc.key, Name: "group", Pos: obls[idxs[0]].Pos, Guard: obls[idxs[0]].Guard, Goal: "(and " + strings.Join(goals, " ") + ")"}
				sf := fmt.Sprintf("%s.grp%d.smt2", base, idxs[0])
				if err := os.WriteFile(sf, []byte(vc.Standalone(comb, false)), 0o644); err == nil {
					r := runSolver(context.Background(), solvers[0], sf, quickMs, true, time.Duration(quickMs*6+6000)*time.Millisecond)
					if vc.crossCheck && r.err == nil && len(r.lines) > 0 && r.lines[0] == "unsat" {
						// thorough tier: the other two solvers must not contradict the grouped proof
						for _, sv := range solvers[1:] {
							rr := runSolver(context.Background(), sv, sf, quickMs, false, time.Duration(quickMs+3000)*time.Millisecond)
							if rr.err == nil && len(rr.lines) > 0 && rr.lines[0] == "sat" {
								setErr(fmt.Errorf("%s group at %d: solvers disagree (z3-new unsat, %s sat; script %s)", vc.key, idxs[0], sv.name, sf))
								return
							}
						}
					}
					os.Remove(sf)
					if r.err == nil && len(r.lines) > 0 && r.lines[0] == "unsat" {
						per := r.dur.Milliseconds() / int64(len(idxs))
						for _, i := range idxs {
							obls[i].Result, obls[i].Solver, obls[i].Ms = "unsat", "z3-new (grouped)", per
						}
						return
					}
				}
			}
			var wg2 sync.WaitGroup
			for _, i := range idxs {
				wg2.Add(1)
				go func(i int) {
					defer wg2.Done()
					single(i, obls[i])
				}(i)
			}
			wg2.Wait()
		}(idxs)
	}
	wg.Wait()
	return firstErr
}

type raceResult struct {
	result string
	solver string
	raw    string
	dur    time.Duration
	err    error
}

// raceSolvers runs the three solvers concurrently on a standalone query; the first definite
// answer wins. A disagreement between definite answers is an engine error.
func raceSolvers(file string, timeoutMs int) raceResult {
	ctx, cancel := context.WithCancel(context.Background())
	defer cancel()
	ch := make(chan runResult, len(solvers))
	for _, s := range solvers {
		s := s
		go func() {
			ch <- runSolver(ctx, s, file, timeoutMs, false, time.Duration(timeoutMs+5000)*time.Millisecond)
		}()
	}
	var first *runResult
	var unknownRaw string
	var lastErr error
	got := 0
	for got < len(solvers) {
		r := <-ch
		got++
		if r.err != nil {
			if ctx.Err() == nil {
				lastErr = r.err
			}
			continue
		}
		if len(r.lines) == 0 {
			continue
		}
		ans := r.lines[0]
		if ans == "unknown" {
			unknownRaw += "[" + r.solver + "] " + r.raw + "\n"
			continue
		}
		if first == nil {
			rr := r
			first = &rr
			// give the others no more time; a quick cross-check would cost the full timeout
			cancel()
		} else if first.lines[0] != ans {
			return raceResult{err: fmt.Errorf("solvers disagree: %s=%s %s=%s", first.solver, first.lines[0], r.solver, ans)}
		}
	}
	if first != nil {
		return raceResult{result: first.lines[0], solver: first.solver, raw: first.raw, dur: first.dur}
	}
	if unknownRaw == "" && lastErr != nil {
		return raceResult{err: lastErr}
	}
	if lastErr != nil {
		unknownRaw += "[solver error ignored] " + lastErr.Error() + "\n"
	}
	return raceResult{result: "unknown", solver: "all", raw: unknownRaw}
}

func sanitize(s string) string {
	r := strings.NewReplacer("/", "_", "(", "", ")", "", "*", "P", " ", "_", "$", "_")
	s = r.Replace(s)
	if len(s) > 150 {
		s = s[len(s)-150:]
	}
	return s
}

// specAxioms renders global axioms declared in spec files (evaluated in an empty environment).
func (vc *VC) specAxioms() string {
	return vc.axiomText
}

// feasible asks the solver whether the current path condition is satisfiable. Only a definite
// "unsat" (within a short time limit) makes it return false; it is used to prune unreachable call
// sites and impossible dispatch candidates while generating verification conditions.
func (vc *VC) feasible() bool {
	r := vc.r()
	if vc.cur == "false" {
		return false
	}
	if vc.cur == "true" {
		return true
	}
	var b strings.Builder
	b.WriteString(r.pre.Text())
	for _, l := range r.coneOfInfluence(vc.cur, len(r.body)) {
		b.WriteString(l)
		b.WriteString("\n")
	}
	fmt.Fprintf(&b, "(assert %s)\n(check-sat)\n", vc.cur)
	dir := r.workDir
	if dir == "" {
		dir = os.TempDir()
	}
	r.nfeas++
	file := filepath.Join(dir, fmt.Sprintf("%s.feas%d.smt2", sanitize(r.key), r.nfeas))
	if err := os.WriteFile(file, []byte(b.String()), 0o644); err != nil {
		return true
	}
	defer os.Remove(file)
	res := runSolver(context.Background(), solvers[0], file, 2000, true, 9*time.Second)
	return !(res.err == nil && len(res.lines) > 0 && res.lines[0] == "unsat")
}
