package main

import (
	"bytes"
	"context"
	"fmt"
	"os"
	"os/exec"
	"path/filepath"
	"strings"
	"sync"
	"time"
)

type solverSpec struct {
	name string
	argv func(file string, timeoutMs int, incremental bool) []string
}

var solvers = []solverSpec{
	{"z3-new", func(f string, t int, inc bool) []string {
		if inc {
			return []string{"z3-new", f}
		}
		return []string{"z3-new", fmt.Sprintf("-t:%d", t), f}
	}},
	{"z3", func(f string, t int, inc bool) []string { return []string{"z3", fmt.Sprintf("-t:%d", t), f} }},
	{"cvc5", func(f string, t int, inc bool) []string {
		a := []string{"cvc5", fmt.Sprintf("--tlimit-per=%d", t), "--lang=smt2"}
		if inc {
			a = append(a, "--incremental")
		}
		return append(a, f)
	}},
}

func obligationAssert(o *Obligation) string {
	if o.Cover {
		return fmt.Sprintf("(assert %s)", o.Guard)
	}
	return fmt.Sprintf("(assert (and %s (not %s)))", o.Guard, o.Goal)
}

// Script renders the incremental script for all obligations of the VC.
func (vc *VC) Script(obls []*Obligation) string {
	var b strings.Builder
	b.WriteString(vc.pre.Text())
	b.WriteString(vc.specAxioms())
	fmt.Fprintf(&b, "(set-option :timeout %d)\n", vc.quickMs)
	oi := 0
	for i := 0; i <= len(vc.body); i++ {
		for oi < len(obls) && obls[oi].Pos == i {
			o := obls[oi]
			if o.Cover {
				fmt.Fprintf(&b, "(set-option :timeout 500)\n")
			}
			fmt.Fprintf(&b, "(push 1)\n; OBL %d %s %s\n%s\n(check-sat)\n(pop 1)\n", oi, o.Name, o.Kind, obligationAssert(o))
			if o.Cover {
				fmt.Fprintf(&b, "(set-option :timeout %d)\n", vc.quickMs)
			}
			oi++
		}
		if i < len(vc.body) {
			b.WriteString(vc.body[i])
			b.WriteString("\n")
		}
	}
	return b.String()
}

func (vc *VC) Standalone(o *Obligation, model bool) string {
	var b strings.Builder
	b.WriteString(vc.pre.Text())
	b.WriteString(vc.specAxioms())
	for i := 0; i < o.Pos && i < len(vc.body); i++ {
		b.WriteString(vc.body[i])
		b.WriteString("\n")
	}
	fmt.Fprintf(&b, "; OBL %s %s %s\n%s\n(check-sat)\n", o.Func, o.Name, o.Detail, obligationAssert(o))
	if model {
		b.WriteString("(get-model)\n")
	}
	return b.String()
}

type runResult struct {
	solver string
	lines  []string
	raw    string
	dur    time.Duration
	err    error
}

func runSolver(ctx context.Context, s solverSpec, file string, timeoutMs int, inc bool, hard time.Duration) runResult {
	argv := s.argv(file, timeoutMs, inc)
	cctx, cancel := context.WithTimeout(ctx, hard)
	defer cancel()
	cmd := exec.CommandContext(cctx, argv[0], argv[1:]...)
	var out bytes.Buffer
	cmd.Stdout = &out
	cmd.Stderr = &out
	t0 := time.Now()
	err := cmd.Run()
	d := time.Since(t0)
	raw := out.String()
	var lines []string
	for _, l := range strings.Split(raw, "\n") {
		l = strings.TrimSpace(l)
		if l == "sat" || l == "unsat" || l == "unknown" || l == "timeout" {
			if l == "timeout" {
				l = "unknown"
			}
			lines = append(lines, l)
		}
	}
	if strings.Contains(raw, "(error") {
		// z3 4.8 reports an error for get-model after unsat; tolerate only that
		bad := false
		for _, l := range strings.Split(raw, "\n") {
			if strings.Contains(l, "(error") && !strings.Contains(l, "model is not available") && !strings.Contains(l, "cannot get model") && !strings.Contains(l, "Cannot get model") {
				bad = true
				err = fmt.Errorf("solver error: %s", l)
				break
			}
		}
		if !bad {
			err = nil
		}
	} else if cctx.Err() == nil {
		// non-zero exit without error text (z3 exits 1 after get-model on unsat)
		err = nil
	}
	return runResult{solver: s.name, lines: lines, raw: raw, dur: d, err: err}
}

// Discharge runs all obligations of vc. Returns engine error if the solver output is malformed.
func (vc *VC) Discharge(obls []*Obligation, workDir string, quickMs, slowMs int) error {
	if len(obls) == 0 {
		return nil
	}
	vc.quickMs = quickMs
	base := filepath.Join(workDir, sanitize(vc.key))
	file := base + ".smt2"
	if err := os.WriteFile(file, []byte(vc.Script(obls)), 0o644); err != nil {
		return err
	}
	hard := time.Duration(len(obls)*quickMs+30000) * time.Millisecond
	r := runSolver(context.Background(), solvers[0], file, quickMs, true, hard)
	if r.err != nil {
		return fmt.Errorf("%s: %v\n(script %s)", vc.key, r.err, file)
	}
	if len(r.lines) != len(obls) {
		// solver died midway: mark the rest unknown
		for len(r.lines) < len(obls) {
			r.lines = append(r.lines, "unknown")
		}
	}
	per := r.dur.Milliseconds() / int64(len(obls))
	for i, o := range obls {
		o.Result = r.lines[i]
		o.Solver = "z3-new(incremental)"
		o.Ms = per
	}
	// second chance for everything not as expected: standalone, three solvers raced, in parallel
	var wg sync.WaitGroup
	var mu sync.Mutex
	var firstErr error
	slots := make(chan struct{}, 4)
	budget := 12 // at most this many slow retries per function
	for i, o := range obls {
		if o.Cover || o.Result == "unsat" {
			continue
		}
		if budget == 0 {
			continue
		}
		budget--
		i, o := i, o
		wg.Add(1)
		go func() {
			defer wg.Done()
			slots <- struct{}{}
			defer func() { <-slots }()
			sf := fmt.Sprintf("%s.obl%d.smt2", base, i)
			if err := os.WriteFile(sf, []byte(vc.Standalone(o, true)), 0o644); err != nil {
				mu.Lock()
				firstErr = err
				mu.Unlock()
				return
			}
			res := raceSolvers(sf, slowMs)
			mu.Lock()
			defer mu.Unlock()
			if res.err != nil {
				firstErr = fmt.Errorf("%s obligation %s: %v (script %s)", vc.key, o.Name, res.err, sf)
				return
			}
			o.Result, o.Solver, o.Ms = res.result, res.solver, res.dur.Milliseconds()
			if res.result != "unsat" {
				o.Model = res.raw
			} else {
				os.Remove(sf)
			}
		}()
	}
	wg.Wait()
	return firstErr
}

type raceResult struct {
	result string
	solver string
	raw    string
	dur    time.Duration
	err    error
}

// raceSolvers runs the three solvers concurrently on a standalone query; the first definite
// answer wins. A disagreement between definite answers is an engine error.
func raceSolvers(file string, timeoutMs int) raceResult {
	ctx, cancel := context.WithCancel(context.Background())
	defer cancel()
	ch := make(chan runResult, len(solvers))
	for _, s := range solvers {
		s := s
		go func() {
			ch <- runSolver(ctx, s, file, timeoutMs, false, time.Duration(timeoutMs+5000)*time.Millisecond)
		}()
	}
	var first *runResult
	var unknownRaw string
	var lastErr error
	got := 0
	for got < len(solvers) {
		r := <-ch
		got++
		if r.err != nil {
			if ctx.Err() == nil {
				lastErr = r.err
			}
			continue
		}
		if len(r.lines) == 0 {
			continue
		}
		ans := r.lines[0]
		if ans == "unknown" {
			unknownRaw += "[" + r.solver + "] " + r.raw + "\n"
			continue
		}
		if first == nil {
			rr := r
			first = &rr
			// give the others no more time; a quick cross-check would cost the full timeout
			cancel()
		} else if first.lines[0] != ans {
			return raceResult{err: fmt.Errorf("solvers disagree: %s=%s %s=%s", first.solver, first.lines[0], r.solver, ans)}
		}
	}
	if first != nil {
		return raceResult{result: first.lines[0], solver: first.solver, raw: first.raw, dur: first.dur}
	}
	if unknownRaw == "" && lastErr != nil {
		return raceResult{err: lastErr}
	}
	return raceResult{result: "unknown", solver: "all", raw: unknownRaw}
}

func sanitize(s string) string {
	r := strings.NewReplacer("/", "_", "(", "", ")", "", "*", "P", " ", "_", "$", "_")
	s = r.Replace(s)
	if len(s) > 150 {
		s = s[len(s)-150:]
	}
	return s
}

// specAxioms renders global axioms declared in spec files (evaluated in an empty environment).
func (vc *VC) specAxioms() string {
	return vc.axiomText
}
