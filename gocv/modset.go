package main

import (
	"fmt"
	"go/token"
	"go/types"
	"sort"
	"strings"
	"sync"

	"golang.org/x/tools/go/ssa"
)

// Modifies-set inference: for every function with a body, the set of heap variables it may
// write (transitively), computed syntactically over SSA with the same address classification
// the VC generator uses.

type heapReg struct {
	sortFn map[string]func(vc *VC) string
}

var theReg = &heapReg{sortFn: map[string]func(vc *VC) string{}}
var scratch = NewPrelude()

// regMu guards the process-wide registries (heap names, scratch prelude, function ids, dispatch
// caches): verification conditions of different functions are generated concurrently.
var regMu sync.Mutex

func (P *Prog) heapSortFn(name string) (func(vc *VC) string, bool) {
	regMu.Lock()
	defer regMu.Unlock()
	f, ok := theReg.sortFn[name]
	return f, ok
}

func regField(st types.Type, i int) string {
	regMu.Lock()
	defer regMu.Unlock()
	n := fieldHeap(st, i)
	if _, ok := theReg.sortFn[n]; !ok {
		theReg.sortFn[n] = func(vc *VC) string { return vc.fieldHeapSort(st, i) }
	}
	return n
}

func regArr(elem types.Type) string {
	regMu.Lock()
	defer regMu.Unlock()
	n := "HA:" + heapTypeKey(elem)
	if _, ok := theReg.sortFn[n]; !ok {
		theReg.sortFn[n] = func(vc *VC) string { _, s := vc.arrHeap(elem); return s }
	}
	return n
}

func regCell(t types.Type) string {
	regMu.Lock()
	defer regMu.Unlock()
	n := "HV:" + heapTypeKey(t)
	if _, ok := theReg.sortFn[n]; !ok {
		theReg.sortFn[n] = func(vc *VC) string { _, s := vc.cellHeap(t); return s }
	}
	return n
}

func regMap(mt *types.Map) (string, string) {
	regMu.Lock()
	defer regMu.Unlock()
	k, v := heapTypeKey(mt.Key()), heapTypeKey(mt.Elem())
	dn, vn := "HMd:"+k+":"+v, "HMv:"+k+":"+v
	if _, ok := theReg.sortFn[dn]; !ok {
		theReg.sortFn[dn] = func(vc *VC) string { _, s, _, _ := vc.mapHeaps(mt); return s }
		theReg.sortFn[vn] = func(vc *VC) string { _, _, _, s := vc.mapHeaps(mt); return s }
	}
	return dn, vn
}

func regGlobal(g *ssa.Global) string {
	regMu.Lock()
	defer regMu.Unlock()
	n := globalHeap(g)
	if _, ok := theReg.sortFn[n]; !ok {
		t := g.Type().(*types.Pointer).Elem()
		theReg.sortFn[n] = func(vc *VC) string { return vc.pre.sortOf(t) }
	}
	return n
}

func isInterior(v ssa.Value) bool {
	switch x := v.(type) {
	case *ssa.FieldAddr, *ssa.IndexAddr:
		return true
	case *ssa.ChangeType:
		return isInterior(x.X)
	}
	return false
}

// staticHeaps names the heaps a store through address v may write.
func staticHeaps(v ssa.Value) []string {
	switch x := v.(type) {
	case *ssa.ChangeType:
		return staticHeaps(x.X)
	case *ssa.Global:
		return []string{regGlobal(x)}
	case *ssa.FieldAddr:
		if isInterior(x.X) {
			return staticHeaps(x.X)
		}
		if g, ok := x.X.(*ssa.Global); ok {
			return []string{regGlobal(g)}
		}
		st := types.Unalias(types.Unalias(x.X.Type()).Underlying().(*types.Pointer).Elem())
		if isExpandedStruct(st) {
			return []string{regField(st, x.Field)}
		}
		return []string{regCell(st)}
	case *ssa.IndexAddr:
		switch xt := types.Unalias(x.X.Type()).Underlying().(type) {
		case *types.Slice:
			return []string{regArr(xt.Elem())}
		case *types.Pointer:
			if isInterior(x.X) {
				return staticHeaps(x.X)
			}
			if g, ok := x.X.(*ssa.Global); ok {
				return []string{regGlobal(g)}
			}
			at := types.Unalias(xt.Elem()).Underlying().(*types.Array)
			return []string{regArr(at.Elem())}
		}
		return nil
	}
	pt, ok := types.Unalias(v.Type()).Underlying().(*types.Pointer)
	if !ok {
		return nil
	}
	return pointeeHeaps(pt.Elem())
}

func pointeeHeaps(el types.Type) []string {
	el = types.Unalias(el)
	if isExpandedStruct(el) {
		var out []string
		s := el.Underlying().(*types.Struct)
		for i := 0; i < s.NumFields(); i++ {
			out = append(out, regField(el, i))
		}
		return out
	}
	if at, ok := el.Underlying().(*types.Array); ok {
		return []string{regArr(at.Elem())}
	}
	return []string{regCell(el)}
}

func reachHeaps(t types.Type, seen map[string]bool, out map[string]bool) {
	t = types.Unalias(t)
	ts := typeStr(t)
	if seen[ts] {
		return
	}
	seen[ts] = true
	switch u := t.Underlying().(type) {
	case *types.Pointer:
		for _, h := range pointeeHeaps(u.Elem()) {
			out[h] = true
		}
		reachHeaps(u.Elem(), seen, out)
	case *types.Struct:
		if !expandStruct(t) {
			return
		}
		for i := 0; i < u.NumFields(); i++ {
			reachHeaps(u.Field(i).Type(), seen, out)
		}
	case *types.Slice:
		out[regArr(u.Elem())] = true
		reachHeaps(u.Elem(), seen, out)
	case *types.Array:
		reachHeaps(u.Elem(), seen, out)
	case *types.Map:
		d, v := regMap(u)
		out[d], out[v] = true, true
		reachHeaps(u.Key(), seen, out)
		reachHeaps(u.Elem(), seen, out)
	}
}

var pureExtPrefixes = []string{"fmt.", "errors.", "strings.", "strconv.", "bytes.Equal", "bytes.Compare", "bytes.Contains", "bytes.HasPrefix",
	"encoding/json.Marshal", "encoding/hex.EncodeToString", "encoding/hex.DecodeString", "encoding/base64.", "(*encoding/base64.",
	"crypto/sha256.", "crypto/sha1.", "crypto/md5.", "crypto/ed25519.", "time.", "(time.", "(*time.", "math.", "unicode", "path/filepath.", "os.Getenv",
	"reflect.DeepEqual", "log.", "(*log.", "github.com/google/uuid.", "(github.com/google/uuid.", "sort.SearchInts", "hash", "(hash.",
	"(*sync.", "sync.", "context.", "(context."}

var sliceWriters = []string{"sort.", "io.ReadFull", "crypto/rand.Read", "encoding/binary.", "(encoding/binary.", "io.ReadAtLeast", "(*os.File).Read",
	"(*bufio.Reader).Read", "encoding/hex.Encode", "encoding/hex.Decode", "(io.Reader).Read", "math/rand.Read", "(*math/rand.Rand).Read"}

// members of the "pure" packages that do write through a pointer argument
var impureExceptions = []string{"errors.As", "fmt.Sscan", "fmt.Fscan", "fmt.Scan"}

func pureExternal(key string) bool {
	return hasAnyPrefix(key, pureExtPrefixes) && !hasAnyPrefix(key, impureExceptions)
}

func hasAnyPrefix(s string, ps []string) bool {
	for _, p := range ps {
		if strings.HasPrefix(s, p) {
			return true
		}
	}
	return false
}

func (P *Prog) externalMods(com *ssa.CallCommon, key string) []string {
	if pureExternal(key) {
		return nil
	}
	out := map[string]bool{}
	sw := hasAnyPrefix(key, sliceWriters)
	handle := func(a ssa.Value) {
		if mi, ok := a.(*ssa.MakeInterface); ok {
			a = mi.X
		}
		t := types.Unalias(a.Type()).Underlying()
		switch tt := t.(type) {
		case *types.Pointer:
			for _, h := range staticHeaps(a) {
				out[h] = true
			}
			reachHeaps(tt.Elem(), map[string]bool{}, out)
		case *types.Slice:
			if sw {
				out[regArr(tt.Elem())] = true
			}
		}
	}
	for _, a := range com.Args {
		handle(a)
	}
	return sortedKeys(out)
}

// allocRoot returns the allocation instruction an address or reference value is rooted at
// (through field/index/conversion chains), or nil.
func allocRoot(v ssa.Value) ssa.Instruction {
	for {
		switch x := v.(type) {
		case *ssa.FieldAddr:
			v = x.X
		case *ssa.IndexAddr:
			v = x.X
		case *ssa.ChangeType:
			v = x.X
		case *ssa.Alloc:
			return x
		case *ssa.MakeSlice:
			return x
		case *ssa.MakeMap:
			return x
		default:
			return nil
		}
	}
}

// instrMods names the heaps an instruction may write. Writes that only initialise an object
// allocated inside the scope (fresh objects are invisible to the context: the context's heap is
// unconstrained at unallocated references) are not modifications.
// storeRoot: for a store/map update, the allocation its target is rooted at (or nil).
func storeRoot(ins ssa.Instruction) ssa.Instruction {
	switch x := ins.(type) {
	case *ssa.Store:
		return allocRoot(x.Addr)
	case *ssa.MapUpdate:
		return allocRoot(x.Map)
	}
	return nil
}

// storeBase returns the slice or pointer value whose object a store writes into (through field and
// index chains), and whether it is a slice.
func storeBase(ins ssa.Instruction) (ssa.Value, bool) {
	st, ok := ins.(*ssa.Store)
	if !ok {
		return nil, false
	}
	v := st.Addr
	for {
		switch x := v.(type) {
		case *ssa.FieldAddr:
			if isInterior(x.X) {
				v = x.X
				continue
			}
			if _, ok := x.X.(*ssa.Global); ok {
				return nil, false
			}
			return x.X, false
		case *ssa.IndexAddr:
			switch types.Unalias(x.X.Type()).Underlying().(type) {
			case *types.Slice:
				return x.X, true
			case *types.Pointer:
				if isInterior(x.X) {
					v = x.X
					continue
				}
				if _, ok := x.X.(*ssa.Global); ok {
					return nil, false
				}
				return x.X, false
			}
			return nil, false
		default:
			return nil, false
		}
	}
}

// decoderTarget: ins is a decoder call that fills an accepted local target
func decoderTarget(ins ssa.Instruction) *ssa.Alloc {
	call, ok := ins.(*ssa.Call)
	if !ok {
		return nil
	}
	key := calleeKey(call.Common())
	ai, ok := decoderFuncs[key]
	if !ok || ai >= len(call.Common().Args) {
		return nil
	}
	return zeroLocalTarget(ins, call.Common().Args[ai])
}

func (P *Prog) instrMods(ins ssa.Instruction, inScope func(*ssa.BasicBlock) bool) []string {
	fresh := func(v ssa.Value) bool {
		r := allocRoot(v)
		return r != nil && inScope(r.Block())
	}
	switch x := ins.(type) {
	case *ssa.Store:
		if fresh(x.Addr) {
			return nil
		}
		return staticHeaps(x.Addr)
	case *ssa.MapUpdate:
		if fresh(x.Map) {
			return nil
		}
		d, v := regMap(types.Unalias(x.Map.Type()).Underlying().(*types.Map))
		return []string{d, v}
	case *ssa.Alloc, *ssa.MakeMap, *ssa.MakeSlice:
		return []string{"$next"}
	case *ssa.Convert:
		regMu.Lock()
		isConv := scratch.sortOf(x.X.Type()) == "Str" && scratch.sortOf(x.Type()) == "Slice"
		regMu.Unlock()
		if isConv {
			return []string{"$next"}
		}
	case *ssa.Slice:
		if pt, ok := types.Unalias(x.X.Type()).Underlying().(*types.Pointer); ok && isInterior(x.X) {
			if _, ok := types.Unalias(pt.Elem()).Underlying().(*types.Array); ok {
				return []string{"$next"}
			}
		}
	case *ssa.Next:
		if r, ok := x.Iter.(*ssa.Range); ok {
			return []string{fmt.Sprintf("$visited:%s", r.Name())}
		}
	case *ssa.Call:
		return P.callMods(x.Common())
	case *ssa.Defer:
		return P.callMods(x.Common())
	case *ssa.Go:
		return P.callMods(x.Common())
	}
	return nil
}

func (P *Prog) callMods(com *ssa.CallCommon) []string {
	key := calleeKey(com)
	if noopCallees[key] {
		return nil
	}
	if b, ok := com.Value.(*ssa.Builtin); ok && !com.IsInvoke() {
		switch b.Name() {
		case "append":
			return []string{"$next"}
		case "copy":
			if st, ok := types.Unalias(com.Args[0].Type()).Underlying().(*types.Slice); ok {
				return []string{regArr(st.Elem())}
			}
		case "delete":
			d, v := regMap(types.Unalias(com.Args[0].Type()).Underlying().(*types.Map))
			return []string{d, v}
		}
		return nil
	}
	out := map[string]bool{"$next": true}
	add := func(hs []string) {
		for _, h := range hs {
			out[h] = true
		}
	}
	if key == "" {
		cands := P.fvCandidates(com.Signature())
		if len(cands) == 0 || P.modsets == nil {
			add(sortedKeys(P.allWrittenHeaps()))
			return sortedKeys(out)
		}
		for _, c := range cands {
			add(sortedKeys(P.modsets[c.fn]))
		}
		return sortedKeys(out)
	}
	if c, ok := P.Spec.Contracts[key]; ok {
		for _, ga := range c.Epilogue {
			out[ga.Var] = true
		}
		for _, ga := range c.Prologue {
			out[ga.Var] = true
		}
		if c.HasMod {
			tmp := &VC{P: P, pre: scratch}
			add(sortedKeys(tmp.resolveModifies(c)))
			return sortedKeys(out)
		}
	}
	if fn := com.StaticCallee(); fn != nil && len(fn.Blocks) > 0 {
		add(sortedKeys(P.modsetOf(fn)))
		return sortedKeys(out)
	}
	if com.IsInvoke() && inModule(com.Method.Pkg()) {
		for _, it := range P.implementations(com.Method) {
			add(sortedKeys(P.modsetOf(it.fn)))
		}
		return sortedKeys(out)
	}
	add(P.externalMods(com, key))
	return sortedKeys(out)
}

var modInProgress = map[*ssa.Function]bool{}
var allWritten map[string]bool

// modsetOf computes (with a global fixpoint on first use) the modset of fn.
func (P *Prog) modsetOf(fn *ssa.Function) map[string]bool {
	if P.modsets == nil {
		P.computeModsets()
	}
	if m, ok := P.modsets[fn]; ok {
		return m
	}
	return map[string]bool{}
}

func (P *Prog) computeModsets() {
	P.modsets = map[*ssa.Function]map[string]bool{}
	var fns []*ssa.Function
	for _, fn := range P.Funcs {
		if len(fn.Blocks) > 0 && fn.Name() != "init" && !strings.HasPrefix(fn.Name(), "init#") {
			fns = append(fns, fn)
			P.modsets[fn] = map[string]bool{}
		}
	}
	// include anonymous functions
	for _, fn := range append([]*ssa.Function(nil), fns...) {
		var rec func(f *ssa.Function)
		rec = func(f *ssa.Function) {
			for _, an := range f.AnonFuncs {
				if _, ok := P.modsets[an]; !ok {
					P.modsets[an] = map[string]bool{}
					fns = append(fns, an)
				}
				rec(an)
			}
		}
		rec(fn)
	}
	sort.Slice(fns, func(i, j int) bool { return fns[i].String() < fns[j].String() })
	allWritten = map[string]bool{}
	// first pass: direct writes define allWritten (needed for function-value calls)
	for _, fn := range fns {
		for _, b := range fn.Blocks {
			for _, ins := range b.Instrs {
				switch ins.(type) {
				case *ssa.Call, *ssa.Defer, *ssa.Go:
					continue
				}
				for _, h := range P.instrMods(ins, func(*ssa.BasicBlock) bool { return true }) {
					if !strings.HasPrefix(h, "$") {
						allWritten[h] = true
					}
				}
			}
		}
	}
	for changed := true; changed; {
		changed = false
		for _, fn := range fns {
			m := P.modsets[fn]
			for _, b := range fn.Blocks {
				for _, ins := range b.Instrs {
					for _, h := range P.instrMods(ins, func(*ssa.BasicBlock) bool { return true }) {
						if strings.HasPrefix(h, "$visited") || h == "$next" {
							continue
						}
						if !m[h] {
							m[h] = true
							changed = true
						}
					}
				}
			}
		}
	}
	for _, m := range P.modsets {
		for h := range m {
			allWritten[h] = true
		}
	}
}

func (P *Prog) allWrittenHeaps() map[string]bool {
	if P.modsets == nil {
		P.computeModsets()
	}
	return allWritten
}

type implTarget struct {
	fn   *ssa.Function // the declared method
	dyn  types.Type    // dynamic type of the interface value
	path []int         // field path from the dynamic value to the receiver of fn (embedding)
}

// implementations returns the module methods that may be the target of invoking m, per dynamic type.
func (P *Prog) implementations(m *types.Func) []implTarget {
	P.mu.Lock()
	defer P.mu.Unlock()
	key := m.FullName()
	if r, ok := P.implCache[key]; ok {
		return r
	}
	recv := m.Type().(*types.Signature).Recv()
	var out []implTarget
	if recv != nil {
		if iface, ok := types.Unalias(recv.Type()).Underlying().(*types.Interface); ok {
			for _, t := range P.concreteTypes() {
				for _, tt := range []types.Type{t, types.NewPointer(t)} {
					if !types.Implements(tt, iface) {
						continue
					}
					obj, path, _ := types.LookupFieldOrMethod(tt, true, m.Pkg(), m.Name())
					f, ok := obj.(*types.Func)
					if !ok {
						continue
					}
					df := P.SSA.FuncValue(f)
					if df == nil {
						continue
					}
					out = append(out, implTarget{fn: df, dyn: tt, path: path[:len(path)-1]})
					break
				}
			}
		}
	}
	P.implCache[key] = out
	return out
}

type fvCand struct {
	fn    *ssa.Function
	bound bool // the function value is a method value: receiver bound in the closure
}

// fvCandidates lists the module functions of the given signature whose address is taken somewhere
// (method values, function literals, functions used as values).
func (P *Prog) fvCandidates(sig *types.Signature) []fvCand {
	P.mu.Lock()
	defer P.mu.Unlock()
	if P.fvAll == nil {
		P.fvAll = map[*ssa.Function]bool{}
		P.fvBound = map[*ssa.Function]bool{}
		for _, fn := range P.allBodies() {
			for _, b := range fn.Blocks {
				for _, ins := range b.Instrs {
					if mc, ok := ins.(*ssa.MakeClosure); ok {
						if f, ok := mc.Fn.(*ssa.Function); ok {
							if strings.HasSuffix(f.Name(), "$bound") {
								if real, ok := P.Funcs[funcKey(f)]; ok {
									P.fvAll[real] = true
									P.fvBound[real] = true
								}
							} else {
								P.fvAll[f] = true
							}
						}
					}
					var ops []*ssa.Value
					for _, op := range ins.Operands(ops) {
						if op == nil || *op == nil {
							continue
						}
						if f, ok := (*op).(*ssa.Function); ok {
							if c, isCall := ins.(ssa.CallInstruction); isCall && c.Common().Value == f {
								continue
							}
							if _, isMC := ins.(*ssa.MakeClosure); isMC {
								continue
							}
							P.fvAll[f] = true
						}
					}
				}
			}
		}
	}
	var out []fvCand
	for f := range P.fvAll {
		fs := f.Signature
		if !sameParamsResults(fs, sig) {
			continue
		}
		out = append(out, fvCand{fn: f, bound: P.fvBound[f]})
	}
	sort.Slice(out, func(i, j int) bool { return funcKey(out[i].fn) < funcKey(out[j].fn) })
	return out
}

func sameParamsResults(a, b *types.Signature) bool {
	if a.Params().Len() != b.Params().Len() || a.Results().Len() != b.Results().Len() || a.Variadic() != b.Variadic() {
		return false
	}
	for i := 0; i < a.Params().Len(); i++ {
		if !types.Identical(a.Params().At(i).Type(), b.Params().At(i).Type()) {
			return false
		}
	}
	for i := 0; i < a.Results().Len(); i++ {
		if !types.Identical(a.Results().At(i).Type(), b.Results().At(i).Type()) {
			return false
		}
	}
	return true
}

func (P *Prog) allBodies() []*ssa.Function {
	var fns []*ssa.Function
	seen := map[*ssa.Function]bool{}
	var rec func(f *ssa.Function)
	rec = func(f *ssa.Function) {
		if seen[f] {
			return
		}
		seen[f] = true
		if len(f.Blocks) > 0 {
			fns = append(fns, f)
		}
		for _, an := range f.AnonFuncs {
			rec(an)
		}
	}
	var keys []string
	for k := range P.Funcs {
		keys = append(keys, k)
	}
	sort.Strings(keys)
	for _, k := range keys {
		rec(P.Funcs[k])
	}
	return fns
}

func (P *Prog) fnID(key string) int {
	P.mu2.Lock()
	defer P.mu2.Unlock()
	if P.fnIDs == nil {
		P.fnIDs = map[string]int{}
	}
	if id, ok := P.fnIDs[key]; ok {
		return id
	}
	id := len(P.fnIDs) + 1
	P.fnIDs[key] = id
	return id
}

func (P *Prog) concreteTypes() []types.Type {
	P.mu2.Lock()
	defer P.mu2.Unlock()
	if P.allTypes != nil {
		return P.allTypes
	}
	var out []types.Type
	var paths []string
	for p := range P.PkgByPath {
		if strings.HasPrefix(p, modulePath) && !strings.Contains(p, "/mocks") {
			paths = append(paths, p)
		}
	}
	sort.Strings(paths)
	for _, p := range paths {
		sc := P.PkgByPath[p].Scope()
		for _, n := range sc.Names() {
			if tn, ok := sc.Lookup(n).(*types.TypeName); ok && !tn.IsAlias() {
				if _, isI := tn.Type().Underlying().(*types.Interface); !isI {
					if nt, ok := tn.Type().(*types.Named); ok && nt.TypeParams().Len() == 0 {
						out = append(out, tn.Type())
					}
				}
			}
		}
	}
	P.allTypes = out
	return out
}

// heapsForType resolves a modifies pattern written as a type.
func (P *Prog) heapsForType(t types.Type, vc *VC) []string {
	t = types.Unalias(t)
	switch u := t.Underlying().(type) {
	case *types.Pointer:
		return pointeeHeaps(u.Elem())
	case *types.Slice:
		return []string{regArr(u.Elem())}
	case *types.Map:
		d, v := regMap(u)
		return []string{d, v}
	case *types.Struct:
		return pointeeHeaps(t)
	}
	return []string{regCell(t)}
}

// heapTypeKey names the Go type class whose values share a heap variable: values of different
// Go element types can never alias the same backing store (no unsafe), so they get separate heaps.
func heapTypeKey(t types.Type) string {
	t = types.Unalias(t)
	if _, ok := t.Underlying().(*types.Interface); ok {
		return "Iface"
	}
	if b, ok := t.(*types.Basic); ok && int(b.Kind()) < len(types.Typ) && types.Typ[b.Kind()] != nil {
		return types.Typ[b.Kind()].Name() // byte -> uint8, rune -> int32
	}
	return typeStr(t)
}

// reachHeapTypes is reachHeaps with the type of the values each heap holds (nil for map-domain heaps).
func reachHeapTypes(t types.Type, seen map[string]bool, out map[string]types.Type) {
	t = types.Unalias(t)
	ts := typeStr(t)
	if seen[ts] {
		return
	}
	seen[ts] = true
	pointee := func(el types.Type) {
		el = types.Unalias(el)
		if isExpandedStruct(el) {
			s := el.Underlying().(*types.Struct)
			for i := 0; i < s.NumFields(); i++ {
				out[regField(el, i)] = s.Field(i).Type()
			}
			return
		}
		if at, ok := el.Underlying().(*types.Array); ok {
			out[regArr(at.Elem())] = at.Elem()
			return
		}
		out[regCell(el)] = el
	}
	switch u := t.Underlying().(type) {
	case *types.Pointer:
		pointee(u.Elem())
		reachHeapTypes(u.Elem(), seen, out)
	case *types.Struct:
		if !expandStruct(t) {
			return
		}
		for i := 0; i < u.NumFields(); i++ {
			reachHeapTypes(u.Field(i).Type(), seen, out)
		}
	case *types.Slice:
		out[regArr(u.Elem())] = u.Elem()
		reachHeapTypes(u.Elem(), seen, out)
	case *types.Array:
		reachHeapTypes(u.Elem(), seen, out)
	case *types.Map:
		d, v := regMap(u)
		out[d], out[v] = nil, u.Elem()
		reachHeapTypes(u.Key(), seen, out)
		reachHeapTypes(u.Elem(), seen, out)
	}
}

// decoders write only into the object they are given and into objects they allocate.
var decoderFuncs = map[string]int{"encoding/json.Unmarshal": 1, "(*encoding/json.Decoder).Decode": 0}

// zeroLocalTarget reports the local variable a decoder call fills when that variable still holds its
// zero value at the call (nothing pre-existing is reachable from it): no other write to it can precede the call.
// freshOnlyHere: v is a map made in this function whose only use is being stored by st
func freshOnlyHere(v ssa.Value, st *ssa.Store) bool {
	mm, ok := v.(*ssa.MakeMap)
	if !ok || mm.Referrers() == nil {
		return false
	}
	for _, r := range *mm.Referrers() {
		if r == ssa.Instruction(st) {
			continue
		}
		if _, dbg := r.(*ssa.DebugRef); dbg {
			continue
		}
		return false
	}
	return true
}

// decoderFreshMaps lists the empty maps stored into the decoder's target variable before the call
func decoderFreshMaps(a *ssa.Alloc) []ssa.Value {
	var out []ssa.Value
	if a.Referrers() == nil {
		return nil
	}
	for _, r := range *a.Referrers() {
		if st, ok := r.(*ssa.Store); ok && st.Addr == ssa.Value(a) && freshOnlyHere(st.Val, st) {
			out = append(out, st.Val)
		}
	}
	return out
}

func zeroLocalTarget(call ssa.Instruction, arg ssa.Value) *ssa.Alloc {
	boxed := arg
	if mi, ok := arg.(*ssa.MakeInterface); ok {
		arg = mi.X
	}
	a, ok := arg.(*ssa.Alloc)
	if !ok || a.Referrers() == nil {
		return nil
	}
	idx := func(ins ssa.Instruction) int {
		for i, x := range ins.Block().Instrs {
			if x == ins {
				return i
			}
		}
		return -1
	}
	// after(r): no execution reaches the call after having executed r
	after := func(r ssa.Instruction) bool {
		if r.Block() == call.Block() {
			return idx(r) > idx(call) && !inCycle(call.Block())
		}
		// r precedes the call on some path iff the call's block is reachable from r's block
		seen := map[*ssa.BasicBlock]bool{}
		stack := append([]*ssa.BasicBlock(nil), r.Block().Succs...)
		for len(stack) > 0 {
			x := stack[len(stack)-1]
			stack = stack[:len(stack)-1]
			if x == call.Block() {
				return false
			}
			if seen[x] {
				continue
			}
			seen[x] = true
			stack = append(stack, x.Succs...)
		}
		return true
	}
	var writes func(v ssa.Value, depth int) bool // some write through v is not after the call
	writes = func(v ssa.Value, depth int) bool {
		if v.Referrers() == nil || depth > 4 {
			return true
		}
		for _, r := range *v.Referrers() {
			if r == call {
				continue
			}
			switch x := r.(type) {
			case *ssa.Store:
				if x.Addr == v && !after(r) {
					if depth == 0 && freshOnlyHere(x.Val, x) {
						continue // the variable holds an empty map made for it: decoding fills that map or replaces it
					}
					return true
				}
				if x.Val == v {
					return true // address escapes
				}
			case *ssa.FieldAddr:
				if writes(x, depth+1) {
					return true
				}
			case *ssa.IndexAddr:
				if writes(x, depth+1) {
					return true
				}
			case *ssa.UnOp, *ssa.DebugRef:
			case *ssa.MakeInterface:
				if ssa.Value(x) != boxed && !after(r) {
					return true
				}
				if ssa.Value(x) != boxed {
					continue
				}
				// the boxed pointer handed to the decoder: only this call may use it
				if x.Referrers() != nil {
					for _, rr := range *x.Referrers() {
						if rr != call {
							if _, dbg := rr.(*ssa.DebugRef); !dbg {
								return true
							}
						}
					}
				}
			default:
				if !after(r) {
					return true
				}
			}
		}
		return false
	}
	if writes(a, 0) {
		return nil
	}
	// a call in a loop fills a variable declared outside the loop again and again: it is zero only the first
	// time. That is harmless only for flat targets (decoding then overwrites fields and allocates new byte slices).
	if inCycle(call.Block()) && !flatDecodeTarget(a.Type().Underlying().(*types.Pointer).Elem(), 0) {
		ab := a.Block()
		if ab == nil || !inSameCycle(call.Block(), ab) {
			return nil
		}
	}
	return a
}

func inCycle(b *ssa.BasicBlock) bool {
	seen := map[*ssa.BasicBlock]bool{}
	var stack []*ssa.BasicBlock
	stack = append(stack, b.Succs...)
	for len(stack) > 0 {
		x := stack[len(stack)-1]
		stack = stack[:len(stack)-1]
		if x == b {
			return true
		}
		if seen[x] {
			continue
		}
		seen[x] = true
		stack = append(stack, x.Succs...)
	}
	return false
}

// inSameCycle: every cycle through b also passes through a (conservatively: a is reachable from b and b from a
// without leaving b's dominated region is not computed; a must be the same block or lie on a cycle with b)
func inSameCycle(b, a *ssa.BasicBlock) bool {
	if a == b {
		return true
	}
	reach := func(from, to *ssa.BasicBlock) bool {
		seen := map[*ssa.BasicBlock]bool{}
		stack := append([]*ssa.BasicBlock(nil), from.Succs...)
		for len(stack) > 0 {
			x := stack[len(stack)-1]
			stack = stack[:len(stack)-1]
			if x == to {
				return true
			}
			if seen[x] {
				continue
			}
			seen[x] = true
			stack = append(stack, x.Succs...)
		}
		return false
	}
	// the variable is re-created in every iteration only if its block is inside every loop that contains the call:
	// approximated by requiring that it dominates the call and is itself on a cycle with it
	return a.Dominates(b) && reach(b, a) && !loopHeaderBetween(a, b)
}

// loopHeaderBetween: some loop contains b but not a (then a is allocated once for several executions of b)
func loopHeaderBetween(a, b *ssa.BasicBlock) bool {
	for _, h := range b.Parent().Blocks {
		// h is a header of a loop containing b if h dominates b and b reaches h
		if !h.Dominates(b) {
			continue
		}
		isHeader := false
		for _, p := range h.Preds {
			if h.Dominates(p) {
				isHeader = true
			}
		}
		if !isHeader {
			continue
		}
		inLoop := func(x *ssa.BasicBlock) bool {
			if !h.Dominates(x) {
				return false
			}
			seen := map[*ssa.BasicBlock]bool{}
			stack := append([]*ssa.BasicBlock(nil), x.Succs...)
			if x == h {
				return true
			}
			for len(stack) > 0 {
				y := stack[len(stack)-1]
				stack = stack[:len(stack)-1]
				if y == h {
					return true
				}
				if seen[y] || !h.Dominates(y) {
					continue
				}
				seen[y] = true
				stack = append(stack, y.Succs...)
			}
			return false
		}
		if inLoop(b) && !inLoop(a) {
			return true
		}
	}
	return false
}

// flatDecodeTarget: no pointers, maps or slices other than []byte anywhere in the value
func flatDecodeTarget(t types.Type, depth int) bool {
	if depth > 6 {
		return false
	}
	switch u := types.Unalias(t).Underlying().(type) {
	case *types.Basic:
		return true
	case *types.Struct:
		for i := 0; i < u.NumFields(); i++ {
			if !flatDecodeTarget(u.Field(i).Type(), depth+1) {
				return false
			}
		}
		return true
	case *types.Array:
		return flatDecodeTarget(u.Elem(), depth+1)
	case *types.Slice:
		b, ok := types.Unalias(u.Elem()).Underlying().(*types.Basic)
		return ok && b.Kind() == types.Uint8
	}
	return false
}

// privateAllocs returns the local variables of fn whose address is only used to read and write them
// (never stored, passed, boxed, captured, sliced or merged): nothing outside fn can reach them.
func (P *Prog) privateAllocs(fn *ssa.Function) []*ssa.Alloc {
	P.mu.Lock()
	if P.privAllocs == nil {
		P.privAllocs = map[*ssa.Function][]*ssa.Alloc{}
	}
	if r, ok := P.privAllocs[fn]; ok {
		P.mu.Unlock()
		return r
	}
	P.mu.Unlock()
	var private func(v ssa.Value, depth int) bool
	private = func(v ssa.Value, depth int) bool {
		if v.Referrers() == nil || depth > 6 {
			return false
		}
		for _, r := range *v.Referrers() {
			switch x := r.(type) {
			case *ssa.DebugRef:
			case *ssa.UnOp:
				if x.Op != token.MUL {
					return false
				}
			case *ssa.Store:
				if x.Addr != v || x.Val == v {
					return false
				}
			case *ssa.FieldAddr:
				if !private(x, depth+1) {
					return false
				}
			case *ssa.IndexAddr:
				if !private(x, depth+1) {
					return false
				}
			default:
				return false
			}
		}
		return true
	}
	var out []*ssa.Alloc
	for _, b := range fn.Blocks {
		for _, ins := range b.Instrs {
			if a, ok := ins.(*ssa.Alloc); ok && private(a, 0) {
				out = append(out, a)
			}
		}
	}
	P.mu.Lock()
	P.privAllocs[fn] = out
	P.mu.Unlock()
	return out
}
