package main

import (
	"fmt"
	"go/token"
	"go/types"
	"sort"
	"strings"

	"golang.org/x/tools/go/ssa"
)

// Secret-flow judgement (an ownership condition on secret values):
//
//	secretflow[label] <pkg-suffix>... : <source>... -> <allowed>...
//
// decides, over go/ssa of every function of the named packages, that a value which depends on a secret is used only
// by the consumers the clause lists. One obligation per function of those packages.
//
// Sources (what is secret):
//	.T.f        every read of field f of struct type T (T a named type of one of the packages)
//	callee      the results of every call whose callee matches (short name, as in assert@call)
// Allowed (where a secret may go):
//	callee      the call may receive secret arguments; its results are public unless callee is also a source
//	return:F    function F (short name) may return a secret to callers outside the packages
//	store:T.f   a secret may be stored into field f of a T that the function did not allocate itself
//
// Dependence is data dependence: every SSA instruction with a secret operand yields a secret (conversions, slicing,
// indexing, field selection, arithmetic, appends, interface boxing, tuples, phis), except len/cap, comparisons and
// the ok flag of a lookup or type assertion. Memory is tracked per allocation site, field-insensitively: a store of a
// secret into memory the function allocated makes that allocation secret, a store into any other memory is a sink.
// Calls inside the packages are followed (parameters, free variables and results, context-insensitively); a call that
// leaves the packages with a secret argument, an interface or function-value call, a channel send, a panic, a return
// from an exported function and a store into foreign memory are sinks and must be allowed explicitly.
// Not covered: implicit flows through control (branching on a secret), timing, and flows through memory that
// is written in one function and read in another without passing through a listed field.

type flowClause struct {
	pkgs        []string
	srcFields   map[string]bool // "T.f"
	srcCallees  []string
	okCallees   []string // declassifying consumers: secret in, public out
	propCallees []string // propagating consumers ("callee="): secret in, secret out
	optional    map[string]bool
	okReturns   []string
	okStores    map[string]bool
	inScope     func(fn *ssa.Function) bool
	tainted     map[ssa.Value]bool
	retTaint    map[*ssa.Function]map[int]bool
	reasons     map[*ssa.Function][]string
	reasonSeen  map[string]bool
	changed     bool
	P           *Prog
	usedAllowed map[string]bool
}

func parseFlowClause(c *Clause) (*flowClause, error) {
	fc := &flowClause{srcFields: map[string]bool{}, okStores: map[string]bool{}, optional: map[string]bool{}, tainted: map[ssa.Value]bool{}, retTaint: map[*ssa.Function]map[int]bool{},
		reasons: map[*ssa.Function][]string{}, reasonSeen: map[string]bool{}, usedAllowed: map[string]bool{}}
	colon := strings.Index(c.Text, " : ")
	arrow := strings.Index(c.Text, " -> ")
	if colon < 0 || arrow < colon {
		return nil, fmt.Errorf("%s:%d: secretflow <pkg>... : <source>... -> <allowed>...", c.File, c.Line)
	}
	fc.pkgs = strings.Fields(c.Text[:colon])
	for _, s := range strings.Fields(c.Text[colon+3 : arrow]) {
		if strings.HasSuffix(s, "?") {
			s = s[:len(s)-1]
			fc.optional[s] = true
		}
		if strings.HasPrefix(s, ".") {
			fc.srcFields[s[1:]] = true
		} else {
			fc.srcCallees = append(fc.srcCallees, s)
		}
	}
	for _, s := range strings.Fields(c.Text[arrow+4:]) {
		switch {
		case strings.HasPrefix(s, "return:"):
			fc.okReturns = append(fc.okReturns, s[len("return:"):])
		case strings.HasPrefix(s, "store:"):
			fc.okStores[s[len("store:"):]] = true
		case strings.HasSuffix(s, "="):
			fc.propCallees = append(fc.propCallees, s[:len(s)-1])
		default:
			fc.okCallees = append(fc.okCallees, s)
		}
	}
	if len(fc.pkgs) == 0 || len(fc.srcFields)+len(fc.srcCallees) == 0 {
		return nil, fmt.Errorf("%s:%d: secretflow needs packages and sources", c.File, c.Line)
	}
	return fc, nil
}

func matchAny(key string, pats []string) string {
	for _, p := range pats {
		if !strings.Contains(p, ">") && calleeMatches(key, p) {
			return p
		}
	}
	return ""
}

// matchIn also honours patterns of the form caller>callee, which apply inside the named top-level function only.
func matchIn(fn *ssa.Function, key string, pats []string) string {
	top := fn
	for top.Parent() != nil {
		top = top.Parent()
	}
	for _, p := range pats {
		if i := strings.Index(p, ">"); i >= 0 {
			if calleeMatches(funcKey(top), p[:i]) && calleeMatches(key, p[i+1:]) {
				return p
			}
		} else if calleeMatches(key, p) {
			return p
		}
	}
	return ""
}

func (fc *flowClause) mark(v ssa.Value) {
	if v == nil || fc.tainted[v] {
		return
	}
	if _, isC := v.(*ssa.Const); isC {
		return
	}
	fc.tainted[v] = true
	fc.changed = true
}

func (fc *flowClause) fail(fn *ssa.Function, pos token.Pos, format string, a ...interface{}) {
	top := fn
	for top.Parent() != nil {
		top = top.Parent()
	}
	p := fc.P.Fset.Position(pos)
	msg := fmt.Sprintf("%s:%d: ", filepathBase(p.Filename), p.Line) + fmt.Sprintf(format, a...)
	k := funcKey(top) + "|" + msg
	if fc.reasonSeen[k] {
		return
	}
	fc.reasonSeen[k] = true
	fc.reasons[top] = append(fc.reasons[top], msg)
}

// fieldName gives "T.f" for a field selection on (pointer to) named struct T.
func fieldName(x ssa.Value, idx int) string {
	t := x.Type()
	if p, ok := types.Unalias(t).Underlying().(*types.Pointer); ok {
		t = p.Elem()
	}
	name := "?"
	if n, ok := types.Unalias(t).(*types.Named); ok {
		name = n.Obj().Name()
	}
	st, ok := types.Unalias(t).Underlying().(*types.Struct)
	if !ok || idx >= st.NumFields() {
		return name + ".?"
	}
	return name + "." + st.Field(idx).Name()
}

// memRoot walks an address back to the object it points into.
func memRoot(v ssa.Value) ssa.Value {
	for i := 0; i < 64; i++ {
		switch x := v.(type) {
		case *ssa.FieldAddr:
			v = x.X
		case *ssa.IndexAddr:
			v = x.X
		case *ssa.Slice:
			v = x.X
		case *ssa.ChangeType:
			v = x.X
		case *ssa.Convert:
			v = x.X
		case *ssa.SliceToArrayPointer:
			v = x.X
		default:
			return v
		}
	}
	return v
}

func ownMemory(root ssa.Value) bool {
	switch root.(type) {
	case *ssa.Alloc, *ssa.MakeSlice, *ssa.MakeMap, *ssa.MakeChan:
		return true
	}
	return false
}

func describeValue(v ssa.Value) string {
	if n := v.Name(); n != "" {
		if d, ok := v.(interface{ Comment() string }); ok {
			_ = d
		}
		switch x := v.(type) {
		case *ssa.Alloc:
			if x.Comment != "" {
				return x.Comment
			}
		case *ssa.Parameter:
			return x.Name()
		case *ssa.Global:
			return x.Name()
		}
		return n
	}
	return v.String()
}

// storeInto handles a write of a secret through addr (or into map/slice object obj).
func (fc *flowClause) storeInto(fn *ssa.Function, ins ssa.Instruction, addr ssa.Value) {
	// an allowed field of foreign memory?
	if fa, ok := addr.(*ssa.FieldAddr); ok {
		fname := fieldName(fa.X, fa.Field)
		if fc.okStores[fname] {
			fc.usedAllowed["store:"+fname] = true
			return
		}
		if fc.srcFields[fname] {
			return // writing a secret into a field that is itself declared secret: reads of it are sources again
		}
	}
	root := memRoot(addr)
	if ownMemory(root) {
		fc.mark(root)
		return
	}
	if fv, ok := root.(*ssa.FreeVar); ok {
		// captured variable of the enclosing function: secret from here on, in the closure and in its parent
		fc.mark(fv)
		if par := fn.Parent(); par != nil {
			for _, b := range par.Blocks {
				for _, i2 := range b.Instrs {
					if mc, ok := i2.(*ssa.MakeClosure); ok && mc.Fn == fn {
						for k, fv2 := range fn.FreeVars {
							if fv2 == fv && k < len(mc.Bindings) {
								fc.storeInto(par, i2, mc.Bindings[k])
							}
						}
					}
				}
			}
		}
		return
	}
	if fc.tainted[root] {
		return // already secret memory (for instance a secret parameter object)
	}
	what := describeValue(root)
	if fa, ok := addr.(*ssa.FieldAddr); ok {
		what = fieldName(fa.X, fa.Field) + " of " + what
	}
	fc.fail(fn, ins.Pos(), "a secret is stored into memory the function does not own (%s)", what)
}

func (fc *flowClause) step(fn *ssa.Function) {
	t := fc.tainted
	anyT := func(vs ...ssa.Value) bool {
		for _, v := range vs {
			if v != nil && t[v] {
				return true
			}
		}
		return false
	}
	for _, b := range fn.Blocks {
		for _, ins := range b.Instrs {
			switch x := ins.(type) {
			case *ssa.FieldAddr:
				if fc.srcFields[fieldName(x.X, x.Field)] {
					// the address of a secret field: loads through it are secret; stores through it are handled in Store
					fc.mark(x)
				} else if t[x.X] {
					fc.mark(x)
				}
			case *ssa.Field:
				if fc.srcFields[fieldName(x.X, x.Field)] || t[x.X] {
					fc.mark(x)
				}
			case *ssa.UnOp:
				if x.Op == token.MUL {
					if t[x.X] {
						fc.mark(x)
					}
				} else if x.Op == token.ARROW {
					if t[x.X] {
						fc.mark(x)
					}
				} else if t[x.X] && x.Op != token.NOT {
					fc.mark(x)
				}
			case *ssa.BinOp:
				switch x.Op {
				case token.EQL, token.NEQ, token.LSS, token.LEQ, token.GTR, token.GEQ:
				default:
					if anyT(x.X, x.Y) {
						fc.mark(x)
					}
				}
			case *ssa.Phi:
				if anyT(x.Edges...) {
					fc.mark(x)
				}
			case *ssa.Convert:
				if t[x.X] {
					fc.mark(x)
				}
			case *ssa.ChangeType:
				if t[x.X] {
					fc.mark(x)
				}
			case *ssa.ChangeInterface:
				if t[x.X] {
					fc.mark(x)
				}
			case *ssa.MakeInterface:
				if t[x.X] {
					fc.mark(x)
				}
			case *ssa.SliceToArrayPointer:
				if t[x.X] {
					fc.mark(x)
				}
			case *ssa.Slice:
				if t[x.X] {
					fc.mark(x)
				}
			case *ssa.IndexAddr:
				if t[x.X] {
					fc.mark(x)
				}
			case *ssa.Index:
				if t[x.X] {
					fc.mark(x)
				}
			case *ssa.Lookup:
				if t[x.X] {
					fc.mark(x)
				}
			case *ssa.Range:
				if t[x.X] {
					fc.mark(x)
				}
			case *ssa.Next:
				if t[x.Iter] {
					fc.mark(x)
				}
			case *ssa.TypeAssert:
				if t[x.X] {
					fc.mark(x)
				}
			case *ssa.Extract:
				if t[x.Tuple] {
					// tuples from calls carry per-index taint; others are all-or-nothing
					if call, ok := x.Tuple.(*ssa.Call); ok {
						if fc.extractTainted(call, x.Index) {
							fc.mark(x)
						}
					} else if _, isOK := x.Tuple.(*ssa.TypeAssert); isOK {
						if x.Index == 0 {
							fc.mark(x)
						}
					} else if _, isLk := x.Tuple.(*ssa.Lookup); isLk {
						if x.Index == 0 {
							fc.mark(x)
						}
					} else if nx, isNx := x.Tuple.(*ssa.Next); isNx {
						_ = nx
						if x.Index != 0 {
							fc.mark(x)
						}
					} else {
						fc.mark(x)
					}
				}
			case *ssa.Store:
				if t[x.Val] {
					fc.storeInto(fn, x, x.Addr)
				}
			case *ssa.MapUpdate:
				if anyT(x.Key, x.Value) {
					root := memRoot(x.Map)
					if ownMemory(root) {
						fc.mark(root)
					} else if !t[root] {
						// a map held in a field: judge as a store into that field
						if ld, ok := root.(*ssa.UnOp); ok && ld.Op == token.MUL {
							fc.storeInto(fn, x, ld.X)
						} else {
							fc.fail(fn, x.Pos(), "a secret is put into a map the function does not own (%s)", describeValue(root))
						}
					}
				}
			case *ssa.Send:
				if t[x.X] {
					fc.fail(fn, x.Pos(), "a secret is sent on a channel")
				}
			case *ssa.Panic:
				if t[x.X] {
					fc.fail(fn, x.Pos(), "a secret is the value of a panic")
				}
			case *ssa.Return:
				for i, r := range x.Results {
					if !t[r] {
						continue
					}
					if fc.retTaint[fn] == nil {
						fc.retTaint[fn] = map[int]bool{}
					}
					if !fc.retTaint[fn][i] {
						fc.retTaint[fn][i] = true
						fc.changed = true
					}
					if fc.leavesScope(fn) {
						if p := matchAny(funcKey(fn), fc.okReturns); p != "" {
							fc.usedAllowed["return:"+p] = true
						} else {
							fc.fail(fn, x.Pos(), "a secret is returned (result %d) by an exported function; callers outside %v receive it", i, fc.pkgs)
						}
					}
				}
			case *ssa.MakeClosure:
				if cl, ok := x.Fn.(*ssa.Function); ok {
					for i, bnd := range x.Bindings {
						if t[bnd] && i < len(cl.FreeVars) {
							fc.mark(cl.FreeVars[i])
						}
					}
				}
				if anyT(x.Bindings...) {
					fc.mark(x)
				}
			case *ssa.Call:
				fc.call(fn, x, x.Common(), x)
			case *ssa.Go:
				fc.call(fn, x, x.Common(), nil)
			case *ssa.Defer:
				fc.call(fn, x, x.Common(), nil)
			}
		}
	}
}

func (fc *flowClause) leavesScope(fn *ssa.Function) bool {
	if fn.Parent() != nil {
		return false
	}
	obj, ok := fn.Object().(*types.Func)
	if !ok || !obj.Exported() {
		return false
	}
	if recv := obj.Type().(*types.Signature).Recv(); recv != nil {
		rt := recv.Type()
		if p, ok := rt.(*types.Pointer); ok {
			rt = p.Elem()
		}
		if n, ok := types.Unalias(rt).(*types.Named); ok && !n.Obj().Exported() {
			return false
		}
	}
	return true
}

// callKind classifies a call for the judgement: "src" (results secret), "prop" (secret in, secret out), "ok" (secret in,
// public out), "in" (callee inside the packages: followed) or "" (unlisted).
func (fc *flowClause) callKind(fn *ssa.Function, com *ssa.CallCommon) (kind, pat string) {
	key := calleeKey(com)
	if p := matchIn(fn, key, fc.propCallees); p != "" {
		return "prop", p + "="
	}
	if p := matchIn(fn, key, fc.okCallees); p != "" {
		return "ok", p
	}
	if callee := com.StaticCallee(); callee != nil && fc.inScope(callee) {
		return "in", ""
	}
	if mc, ok := com.Value.(*ssa.MakeClosure); ok && !com.IsInvoke() {
		if callee, ok := mc.Fn.(*ssa.Function); ok && fc.inScope(callee) {
			return "in", ""
		}
	}
	return "", ""
}

func calleeFunc(com *ssa.CallCommon) *ssa.Function {
	if callee := com.StaticCallee(); callee != nil {
		return callee
	}
	if mc, ok := com.Value.(*ssa.MakeClosure); ok && !com.IsInvoke() {
		if callee, ok := mc.Fn.(*ssa.Function); ok {
			return callee
		}
	}
	return nil
}

func (fc *flowClause) anyArgTainted(com *ssa.CallCommon) bool {
	if com.IsInvoke() && fc.tainted[com.Value] {
		return true
	}
	for _, a := range com.Args {
		if fc.tainted[a] {
			return true
		}
	}
	return false
}

func (fc *flowClause) extractTainted(call *ssa.Call, idx int) bool {
	com := call.Common()
	sig := com.Signature()
	isErr := idx < sig.Results().Len() && isErrorType(sig.Results().At(idx).Type())
	if matchIn(call.Parent(), calleeKey(com), fc.srcCallees) != "" {
		return !isErr // of a source call every non-error result is secret
	}
	kind, _ := fc.callKind(call.Parent(), com)
	switch kind {
	case "prop":
		return !isErr && fc.anyArgTainted(com)
	case "ok":
		return false
	case "in":
		return fc.retTaint[calleeFunc(com)][idx]
	}
	return false // unlisted callee: reported at the call
}

func (fc *flowClause) call(fn *ssa.Function, ins ssa.Instruction, com *ssa.CallCommon, val *ssa.Call) {
	t := fc.tainted
	key := calleeKey(com)
	isSrc := matchIn(fn, key, fc.srcCallees) != ""
	if isSrc && val != nil {
		fc.mark(val)
	}
	var args []ssa.Value
	if com.IsInvoke() {
		args = append(args, com.Value)
	}
	args = append(args, com.Args...)
	anyArg := fc.anyArgTainted(com)
	if b, ok := com.Value.(*ssa.Builtin); ok && !com.IsInvoke() {
		switch b.Name() {
		case "len", "cap", "delete", "close", "min", "max", "clear":
			return
		case "append":
			if anyArg && val != nil {
				fc.mark(val)
				// appending a secret to a slice makes the backing array secret, too
				if len(com.Args) > 0 {
					if r := memRoot(com.Args[0]); ownMemory(r) {
						fc.mark(r)
					}
				}
			}
			return
		case "copy":
			if len(com.Args) == 2 && t[com.Args[1]] {
				fc.storeInto(fn, ins, com.Args[0])
			}
			return
		default:
			if anyArg {
				fc.fail(fn, ins.Pos(), "a secret is passed to builtin %s", b.Name())
			}
			return
		}
	}
	kind, pat := fc.callKind(fn, com)
	if kind == "in" {
		callee := calleeFunc(com)
		params := callee.Params
		cargs := args
		if _, isMC := com.Value.(*ssa.MakeClosure); isMC {
			cargs = com.Args
		}
		for i, a := range cargs {
			if t[a] && i < len(params) {
				fc.mark(params[i])
			}
		}
		if val != nil && len(fc.retTaint[callee]) > 0 {
			fc.mark(val)
		}
		return
	}
	if !anyArg {
		return
	}
	switch kind {
	case "ok":
		fc.usedAllowed[pat] = true
		return
	case "prop":
		fc.usedAllowed[pat] = true
		if val != nil {
			fc.mark(val)
		}
		return
	}
	name := key
	if name == "" {
		name = "a function value (" + com.Value.Type().String() + ")"
	}
	var which []string
	for i, a := range args {
		if t[a] {
			which = append(which, fmt.Sprintf("#%d %s", i, describeValue(a)))
		}
	}
	// reported once, at the sink: what the unlisted callee returns is not followed further
	fc.fail(fn, ins.Pos(), "a secret (%s) is passed to %s, which is not a listed consumer", strings.Join(which, ", "), shortKey(name))
}

// EvalFlowClause decides a secretflow clause: one obligation per function of the packages.
func (P *Prog) EvalFlowClause(c *Clause, unit string) ([]*Obligation, []string, error) {
	fc, err := parseFlowClause(c)
	if err != nil {
		return nil, nil, err
	}
	fc.P = P
	scope := map[*ssa.Function]bool{}
	var tops []*ssa.Function
	for _, fn := range P.Funcs {
		if len(fn.Blocks) == 0 || fn.Pkg == nil || !inModule(fn.Pkg.Pkg) {
			continue
		}
		for _, p := range fc.pkgs {
			if strings.HasSuffix(fn.Pkg.Pkg.Path(), p) {
				scope[fn] = true
				if fn.Parent() == nil {
					tops = append(tops, fn)
				}
			}
		}
	}
	fc.inScope = func(fn *ssa.Function) bool { return scope[fn] }
	if len(tops) == 0 {
		return nil, nil, fmt.Errorf("%s:%d: no function found in %v", c.File, c.Line, fc.pkgs)
	}
	var all []*ssa.Function
	for fn := range scope {
		all = append(all, fn)
	}
	sort.Slice(all, func(i, j int) bool { return funcKey(all[i]) < funcKey(all[j]) })
	sort.Slice(tops, func(i, j int) bool { return funcKey(tops[i]) < funcKey(tops[j]) })
	for round := 0; round < 200; round++ {
		fc.changed = false
		for _, fn := range all {
			fc.step(fn)
		}
		if !fc.changed {
			break
		}
	}
	// vacuity: every source must occur, every allowed item must be used
	srcSeen := map[string]bool{}
	for _, fn := range all {
		for _, b := range fn.Blocks {
			for _, ins := range b.Instrs {
				switch x := ins.(type) {
				case *ssa.FieldAddr:
					if n := fieldName(x.X, x.Field); fc.srcFields[n] {
						srcSeen["."+n] = true
					}
				case *ssa.Field:
					if n := fieldName(x.X, x.Field); fc.srcFields[n] {
						srcSeen["."+n] = true
					}
				case ssa.CallInstruction:
					if p := matchIn(fn, calleeKey(x.Common()), fc.srcCallees); p != "" {
						srcSeen[p] = true
					}
				}
			}
		}
	}
	var missing []string
	for f := range fc.srcFields {
		if !srcSeen["."+f] && !fc.optional["."+f] {
			missing = append(missing, "."+f)
		}
	}
	for _, s := range fc.srcCallees {
		if !srcSeen[s] && !fc.optional[s] {
			missing = append(missing, s)
		}
	}
	sort.Strings(missing)
	label := strings.Join(c.Labels, ",")
	var out []*Obligation
	secretFns := 0
	for _, fn := range tops {
		k := funcKey(fn)
		pos := P.Fset.Position(fn.Pos())
		n := 0
		var count func(f *ssa.Function)
		count = func(f *ssa.Function) {
			for v := range fc.tainted {
				if in, ok := v.(ssa.Instruction); ok && in.Parent() == f {
					n++
				} else if p, ok := v.(*ssa.Parameter); ok && p.Parent() == f {
					n++
				}
			}
			for _, a := range f.AnonFuncs {
				count(a)
			}
		}
		count(fn)
		if n > 0 {
			secretFns++
		}
		o := &Obligation{Func: unit, Name: fmt.Sprintf("[%s:%s]", label, shortKey(k)), Kind: "ground",
			Detail: fmt.Sprintf("secrets reach only listed consumers in %s (%d secret values tracked)", shortKey(k), n), Clause: c,
			Goal: "true", Guard: "true", Solver: "flow-judgement", Result: "unsat", Site: pos}
		if rs := fc.reasons[fn]; len(rs) > 0 {
			sort.Strings(rs)
			o.Result = "sat"
			o.Model = "a secret can leave through a consumer the clause does not list:\n  " + strings.Join(rs, "\n  ")
		}
		out = append(out, o)
	}
	// the clause itself: sources present (not vacuous)
	o := &Obligation{Func: unit, Name: fmt.Sprintf("[%s:sources]", label), Kind: "ground", Detail: fmt.Sprintf("every listed source occurs in %v (%d functions handle secrets)", fc.pkgs, secretFns), Clause: c,
		Goal: "true", Guard: "true", Solver: "flow-judgement", Result: "unsat", Site: token.Position{Filename: c.File, Line: c.Line}}
	if len(missing) > 0 {
		o.Result = "sat"
		o.Model = "sources that no longer occur in the code (the clause would be vacuous for them): " + strings.Join(missing, " ")
	}
	out = append(out, o)
	var trusted []string
	var used []string
	for a := range fc.usedAllowed {
		used = append(used, a)
	}
	sort.Strings(used)
	trusted = append(trusted, fmt.Sprintf("flow judgement %s: listed consumers are trusted not to reveal their secret arguments (%s); implicit flows through control are not tracked", label, strings.Join(used, " ")))
	return out, trusted, nil
}

// EvalNoCallClause decides `nocall[label] <pkg-suffix>... : <callee>...`: no function of the named packages calls one of
// the listed callees (sources of nondeterminism such as the wall clock). One obligation per package.
func (P *Prog) EvalNoCallClause(c *Clause, unit string) ([]*Obligation, error) {
	colon := strings.Index(c.Text, " : ")
	if colon < 0 {
		return nil, fmt.Errorf("%s:%d: nocall <pkg>... : <callee>...", c.File, c.Line)
	}
	pkgs := strings.Fields(c.Text[:colon])
	pats := strings.Fields(c.Text[colon+3:])
	if len(pkgs) == 0 || len(pats) == 0 {
		return nil, fmt.Errorf("%s:%d: nocall needs packages and callees", c.File, c.Line)
	}
	label := strings.Join(c.Labels, ",")
	hits := map[string][]string{}
	count := map[string]int{}
	seenPkg := map[string]bool{}
	var keys []string
	for k := range P.Funcs {
		keys = append(keys, k)
	}
	sort.Strings(keys)
	for _, k := range keys {
		fn := P.Funcs[k]
		if len(fn.Blocks) == 0 || fn.Pkg == nil || !inModule(fn.Pkg.Pkg) {
			continue
		}
		path := fn.Pkg.Pkg.Path()
		match := ""
		for _, p := range pkgs {
			if strings.HasSuffix(path, p) {
				match = p
			}
		}
		if match == "" {
			continue
		}
		seenPkg[match] = true
		count[match]++
		for _, b := range fn.Blocks {
			for _, ins := range b.Instrs {
				ci, ok := ins.(ssa.CallInstruction)
				if !ok {
					continue
				}
				key := calleeKey(ci.Common())
				for _, pat := range pats {
					if key != "" && (calleeMatches(key, pat) || (strings.HasSuffix(pat, ".") && strings.HasPrefix(key, pat))) {
						pos := P.Fset.Position(ins.Pos())
						hits[match] = append(hits[match], fmt.Sprintf("%s:%d: %s calls %s", filepathBase(pos.Filename), pos.Line, shortKey(k), key))
					}
				}
			}
		}
	}
	var out []*Obligation
	for _, p := range pkgs {
		if !seenPkg[p] {
			return nil, fmt.Errorf("%s:%d: nocall: no function found in package %s", c.File, c.Line, p)
		}
		o := &Obligation{Func: unit, Name: fmt.Sprintf("[%s:%s]", label, p), Kind: "ground", Detail: fmt.Sprintf("none of %v is called in the %d functions of %s", pats, count[p], p), Clause: c,
			Goal: "true", Guard: "true", Solver: "flow-judgement", Result: "unsat", Site: token.Position{Filename: c.File, Line: c.Line}}
		if len(hits[p]) > 0 {
			o.Result = "sat"
			o.Model = "a listed callee is called:\n  " + strings.Join(hits[p], "\n  ")
		}
		out = append(out, o)
	}
	return out, nil
}

// EvalNoEqClause decides `noeq[label] <pkg-suffix>... : <named type>...`: no function of the named packages compares with
// == or != two values whose type is, or contains by value (struct fields, array elements), one of the listed named types.
// Used for values whose Go equality does not survive encoding/json (time.Time: monotonic reading and location pointer are
// part of ==, not of the encoded form; only Equal survives). One obligation per package.
func (P *Prog) EvalNoEqClause(c *Clause, unit string) ([]*Obligation, error) {
	colon := strings.Index(c.Text, " : ")
	if colon < 0 {
		return nil, fmt.Errorf("%s:%d: noeq <pkg>... : <named type>...", c.File, c.Line)
	}
	pkgs := strings.Fields(c.Text[:colon])
	names := strings.Fields(c.Text[colon+3:])
	if len(pkgs) == 0 || len(names) == 0 {
		return nil, fmt.Errorf("%s:%d: noeq needs packages and type names", c.File, c.Line)
	}
	label := strings.Join(c.Labels, ",")
	var contains func(t types.Type, depth int) string
	contains = func(t types.Type, depth int) string {
		if depth > 6 {
			return ""
		}
		t = types.Unalias(t)
		if n, ok := t.(*types.Named); ok && n.Obj() != nil && n.Obj().Pkg() != nil {
			full := n.Obj().Pkg().Path() + "." + n.Obj().Name()
			for _, w := range names {
				if full == w {
					return full
				}
			}
		}
		switch u := t.Underlying().(type) {
		case *types.Struct:
			for i := 0; i < u.NumFields(); i++ {
				if r := contains(u.Field(i).Type(), depth+1); r != "" {
					return r
				}
			}
		case *types.Array:
			return contains(u.Elem(), depth+1)
		}
		return ""
	}
	hits := map[string][]string{}
	count := map[string]int{}
	seenPkg := map[string]bool{}
	var keys []string
	for k := range P.Funcs {
		keys = append(keys, k)
	}
	sort.Strings(keys)
	for _, k := range keys {
		fn := P.Funcs[k]
		if len(fn.Blocks) == 0 || fn.Pkg == nil || !inModule(fn.Pkg.Pkg) {
			continue
		}
		path := fn.Pkg.Pkg.Path()
		match := ""
		for _, p := range pkgs {
			if strings.HasSuffix(path, p) {
				match = p
			}
		}
		if match == "" {
			continue
		}
		seenPkg[match] = true
		count[match]++
		fns := append([]*ssa.Function{fn}, fn.AnonFuncs...)
		for _, f := range fns {
			for _, b := range f.Blocks {
				for _, ins := range b.Instrs {
					bo, ok := ins.(*ssa.BinOp)
					if !ok || (bo.Op != token.EQL && bo.Op != token.NEQ) {
						continue
					}
					if w := contains(bo.X.Type(), 0); w != "" {
						pos := P.Fset.Position(bo.Pos())
						hits[match] = append(hits[match], fmt.Sprintf("%s:%d: %s compares values containing %s with %s", filepathBase(pos.Filename), pos.Line, shortKey(k), w, bo.Op))
					}
				}
			}
		}
	}
	var out []*Obligation
	for _, p := range pkgs {
		if !seenPkg[p] {
			return nil, fmt.Errorf("%s:%d: noeq: no function found in package %s", c.File, c.Line, p)
		}
		o := &Obligation{Func: unit, Name: fmt.Sprintf("[%s:%s]", label, p), Kind: "ground", Detail: fmt.Sprintf("no == / != on values containing %v in the %d functions of %s", names, count[p], p), Clause: c,
			Goal: "true", Guard: "true", Solver: "flow-judgement", Result: "unsat", Site: token.Position{Filename: c.File, Line: c.Line}}
		if len(hits[p]) > 0 {
			o.Result = "sat"
			o.Model = "values whose equality does not survive the dump are compared with == / !=:\n  " + strings.Join(hits[p], "\n  ")
		}
		out = append(out, o)
	}
	return out, nil
}

// EvalRecoversClause decides `recovers[label] <function-key substring>...`: each named function defers, on its entry path
// (a defer instruction in its first block), a function that calls the builtin recover - so a panic raised by anything it
// calls (a library that faults on malformed input) ends as a normal return of this function, not as a crash of the process.
// It says nothing about what the function returns then. One obligation per function.
func (P *Prog) EvalRecoversClause(c *Clause, unit string) ([]*Obligation, error) {
	pats := strings.Fields(c.Text)
	if len(pats) == 0 {
		return nil, fmt.Errorf("%s:%d: recovers <function>...", c.File, c.Line)
	}
	label := strings.Join(c.Labels, ",")
	var keys []string
	for k := range P.Funcs {
		keys = append(keys, k)
	}
	sort.Strings(keys)
	callsRecover := func(fn *ssa.Function) bool {
		if fn == nil {
			return false
		}
		for _, b := range fn.Blocks {
			for _, ins := range b.Instrs {
				if ci, ok := ins.(ssa.CallInstruction); ok {
					if bi, ok := ci.Common().Value.(*ssa.Builtin); ok && bi.Name() == "recover" {
						return true
					}
				}
			}
		}
		return false
	}
	var out []*Obligation
	for _, pat := range pats {
		var found []string
		for _, k := range keys {
			if strings.Contains(k, pat) && len(P.Funcs[k].Blocks) > 0 && P.Funcs[k].Parent() == nil {
				found = append(found, k)
			}
		}
		if len(found) != 1 {
			return nil, fmt.Errorf("%s:%d: recovers: %q matches %d functions", c.File, c.Line, pat, len(found))
		}
		fn := P.Funcs[found[0]]
		ok := false
		for _, ins := range fn.Blocks[0].Instrs {
			d, isDefer := ins.(*ssa.Defer)
			if !isDefer {
				continue
			}
			switch v := d.Call.Value.(type) {
			case *ssa.MakeClosure:
				if f, isFn := v.Fn.(*ssa.Function); isFn && callsRecover(f) {
					ok = true
				}
			case *ssa.Function:
				if callsRecover(v) {
					ok = true
				}
			}
		}
		o := &Obligation{Func: unit, Name: fmt.Sprintf("[%s:%s]", label, shortKey(found[0])), Kind: "ground", Detail: "the function defers a recover on its entry path", Clause: c,
			Goal: "true", Guard: "true", Solver: "flow-judgement", Result: "unsat", Site: token.Position{Filename: c.File, Line: c.Line}}
		if !ok {
			o.Result = "sat"
			o.Model = "no deferred function that calls recover() in the entry block of " + found[0] + ": a panic in a callee terminates the process"
		}
		out = append(out, o)
	}
	return out, nil
}
