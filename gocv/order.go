package main

import (
	"fmt"
	"go/token"
	"go/types"
	"sort"
	"strings"

	"golang.org/x/tools/go/ssa"
)

// Order judgement: Go iterates maps in an unspecified order. `orderfree[label] <pkg-path-substring>...` inspects every
// range-over-map loop of every function in the named packages and decides, syntactically over go/ssa, whether the
// order of iteration can reach anything that outlives the loop. One obligation per loop, named after function and
// ordinal. A loop is order-free if everything it does is one of:
//   * writes through the iteration key/value (fields of the value, entries keyed by the key) or into objects made
//     inside the iteration,
//   * commutative accumulation into a loop-carried variable (x = x op e with op in + - * | & ^, booleans set to a
//     constant, counters),
//   * appends to a slice that is passed to a sort function after the loop and before any other use,
//   * returns / breaks whose results do not depend on which element was reached (constants, loop-invariant values,
//     errors built from them),
//   * calls of pure or logging functions.
// Anything else is reported with the instruction that carries the order out. Loops listed with
// `orderaccept <function> <ordinal> <reason>` are accepted as trusted, and the reason is echoed in the evidence.

type orderLoop struct {
	fn      *ssa.Function
	ord     int
	rng     *ssa.Range
	next    *ssa.Next
	body    map[*ssa.BasicBlock]bool
	header  *ssa.BasicBlock
	reasons []string
}

var orderPureCallees = []string{"fmt.", "errors.", "strings.", "strconv.", "bytes.", "log.", "(*log.", "time.", "(time.", "len", "cap", "encoding/hex.", "encoding/base64.",
	"(github.com/lidofinance/dc4bc/client/modules/logger.Logger).Log", "reflect.DeepEqual", "sort."}

func (P *Prog) mapRangeLoops(fn *ssa.Function) []*orderLoop {
	var out []*orderLoop
	for _, b := range fn.Blocks {
		for _, ins := range b.Instrs {
			nx, ok := ins.(*ssa.Next)
			if !ok || nx.IsString {
				continue
			}
			rg, ok := nx.Iter.(*ssa.Range)
			if !ok {
				continue
			}
			if _, isMap := types.Unalias(rg.X.Type()).Underlying().(*types.Map); !isMap {
				continue
			}
			l := &orderLoop{fn: fn, rng: rg, next: nx, header: b, body: map[*ssa.BasicBlock]bool{b: true}}
			// natural loop of header b: blocks that reach a back edge into b and are dominated by b
			for _, p := range b.Preds {
				if !b.Dominates(p) {
					continue
				}
				stack := []*ssa.BasicBlock{p}
				for len(stack) > 0 {
					n := stack[len(stack)-1]
					stack = stack[:len(stack)-1]
					if l.body[n] {
						continue
					}
					l.body[n] = true
					stack = append(stack, n.Preds...)
				}
			}
			out = append(out, l)
		}
	}
	sort.Slice(out, func(i, j int) bool { return out[i].next.Pos() < out[j].next.Pos() })
	for i, l := range out {
		l.ord = i
	}
	return out
}

// dependsOnIteration: v is computed from the key/value of the iteration (or from anything defined inside the loop
// that is), following data dependences only.
func (l *orderLoop) dependsOnIteration(v ssa.Value, seen map[ssa.Value]bool) bool {
	if v == nil || seen[v] {
		return false
	}
	seen[v] = true
	if ex, ok := v.(*ssa.Extract); ok && ex.Tuple == ssa.Value(l.next) {
		return ex.Index != 0 // index 0 is the "ok" flag
	}
	ins, ok := v.(ssa.Instruction)
	if !ok || !l.body[ins.Block()] {
		return false // defined outside the loop: loop-invariant
	}
	if phi, ok := v.(*ssa.Phi); ok && phi.Block() == l.header {
		return true // loop-carried: its value depends on how far the iteration got
	}
	var ops []*ssa.Value
	for _, op := range ins.Operands(ops) {
		if op != nil && *op != nil && l.dependsOnIteration(*op, seen) {
			return true
		}
	}
	return false
}

func (l *orderLoop) rootedInIteration(addr ssa.Value) bool {
	for {
		switch x := addr.(type) {
		case *ssa.FieldAddr:
			addr = x.X
		case *ssa.IndexAddr:
			addr = x.X
		case *ssa.UnOp:
			addr = x.X
		case *ssa.Alloc, *ssa.MakeMap, *ssa.MakeSlice:
			ins := x.(ssa.Instruction)
			return l.body[ins.Block()] // made inside the iteration
		default:
			return l.dependsOnIteration(addr, map[ssa.Value]bool{})
		}
	}
}

func commutativeUpdate(phi *ssa.Phi, back ssa.Value, l *orderLoop) bool {
	// follow trivial merges inside the body: phi(x, x op e), phi(x, const)
	var ok func(v ssa.Value, depth int) bool
	ok = func(v ssa.Value, depth int) bool {
		if depth > 6 {
			return false
		}
		if v == ssa.Value(phi) {
			return true
		}
		switch x := v.(type) {
		case *ssa.Const:
			return true
		case *ssa.Phi:
			for _, e := range x.Edges {
				if !ok(e, depth+1) {
					return false
				}
			}
			return true
		case *ssa.BinOp:
			switch x.Op {
			case token.ADD, token.SUB, token.MUL, token.OR, token.AND, token.XOR:
				if _, isStr := types.Unalias(x.Type()).Underlying().(*types.Basic); isStr && types.Unalias(x.Type()).Underlying().(*types.Basic).Info()&types.IsString != 0 {
					return false // string concatenation is not commutative
				}
				if ok(x.X, depth+1) && !mentionsPhi(x.Y, phi, 0) {
					return true
				}
				if x.Op != token.SUB && ok(x.Y, depth+1) && !mentionsPhi(x.X, phi, 0) {
					return true
				}
			}
		}
		return false
	}
	return ok(back, 0)
}

func mentionsPhi(v ssa.Value, phi *ssa.Phi, depth int) bool {
	if v == ssa.Value(phi) {
		return true
	}
	if depth > 6 {
		return true
	}
	ins, isIns := v.(ssa.Instruction)
	if !isIns {
		return false
	}
	var ops []*ssa.Value
	for _, op := range ins.Operands(ops) {
		if op != nil && *op != nil && mentionsPhi(*op, phi, depth+1) {
			return true
		}
	}
	return false
}

// sortedAfter: every path from the loop uses the slice first in a call of a sort function
func sortedAfter(v ssa.Value, l *orderLoop) bool {
	refs := v.Referrers()
	if refs == nil {
		return false
	}
	sorted := false
	for _, r := range *refs {
		if l.body[r.Block()] {
			continue
		}
		switch x := r.(type) {
		case *ssa.Call:
			if strings.HasPrefix(calleeKey(x.Common()), "sort.") {
				sorted = true
			}
		case *ssa.DebugRef:
		case *ssa.ChangeType, *ssa.MakeInterface, *ssa.Convert:
			if sortedAfter(x.(ssa.Value), l) {
				sorted = true
			}
		}
	}
	return sorted
}

func (l *orderLoop) judge(P *Prog) {
	add := func(ins ssa.Instruction, f string, a ...interface{}) {
		pos := P.Fset.Position(ins.Pos())
		l.reasons = append(l.reasons, fmt.Sprintf("%s:%d: %s", filepathBase(pos.Filename), pos.Line, fmt.Sprintf(f, a...)))
	}
	// loop-carried variables
	for _, ins := range l.header.Instrs {
		phi, ok := ins.(*ssa.Phi)
		if !ok {
			break
		}
		for i, e := range phi.Edges {
			if !l.body[l.header.Preds[i]] {
				continue
			}
			if commutativeUpdate(phi, e, l) {
				continue
			}
			// a slice built by append and sorted afterwards
			if _, isSlice := types.Unalias(phi.Type()).Underlying().(*types.Slice); isSlice && sortedAfter(phi, l) {
				continue
			}
			add(phi, "variable %s is updated in an order-dependent way", phi.Comment)
		}
	}
	for b := range l.body {
		for _, ins := range b.Instrs {
			switch x := ins.(type) {
			case *ssa.Store:
				if l.rootedInIteration(x.Addr) {
					continue
				}
				if a, ok := x.Addr.(*ssa.Alloc); ok && !l.body[a.Block()] {
					// a variable in memory outside the loop: treat like a loop-carried variable
					if c, isC := x.Val.(*ssa.Const); isC && c != nil {
						continue
					}
					if !l.dependsOnIteration(x.Val, map[ssa.Value]bool{}) {
						continue
					}
					add(x, "stores an element-dependent value into variable %s", a.Comment)
					continue
				}
				if l.dependsOnIteration(x.Val, map[ssa.Value]bool{}) || !l.rootedInIteration(x.Addr) {
					add(x, "writes outside the iterated element")
				}
			case *ssa.MapUpdate:
				// entries keyed by the iteration key (or by something derived from the element) are independent
				if l.dependsOnIteration(x.Key, map[ssa.Value]bool{}) {
					continue
				}
				if l.dependsOnIteration(x.Value, map[ssa.Value]bool{}) {
					add(x, "stores an element-dependent value under a fixed key")
				}
			case *ssa.Return:
				for _, r := range x.Results {
					if l.dependsOnIteration(r, map[ssa.Value]bool{}) {
						add(x, "returns a value that depends on which element was reached first")
						break
					}
				}
			case *ssa.Call:
				key := calleeKey(x.Common())
				if _, isB := x.Common().Value.(*ssa.Builtin); isB {
					continue
				}
				pure := false
				for _, p := range orderPureCallees {
					if strings.HasPrefix(key, p) {
						pure = true
					}
				}
				if c, ok := P.Spec.Contracts[key]; ok && c.Pure {
					pure = true
				}
				if pure {
					continue
				}
				if fn := x.Common().StaticCallee(); fn != nil && len(fn.Blocks) > 0 {
					ms := P.modsetOf(fn)
					real := false
					for h := range ms {
						if h != "$next" && !strings.HasPrefix(h, "$") {
							real = true
						}
					}
					if !real {
						continue
					}
				}
				add(x, "calls %s, which has effects, once per element in iteration order", shortKey(key))
			case *ssa.Send, *ssa.Go, *ssa.Defer:
				add(ins, "%T inside a map iteration", ins)
			}
		}
	}
	// values that leave the loop through a merge after it
	for b := range l.body {
		for _, s := range b.Succs {
			if l.body[s] {
				continue
			}
			for _, ins := range s.Instrs {
				phi, ok := ins.(*ssa.Phi)
				if !ok {
					break
				}
				for i, p := range s.Preds {
					if p == b && l.dependsOnIteration(phi.Edges[i], map[ssa.Value]bool{}) {
						if _, isC := phi.Edges[i].(*ssa.Const); !isC {
							add(phi, "variable %s leaves the loop with an element-dependent value", phi.Comment)
						}
					}
				}
			}
		}
	}
}

// EvalOrderClause decides `orderfree[label] <package path substring>...`.
func (P *Prog) EvalOrderClause(c *Clause, unit string) ([]*Obligation, []string, error) {
	pats := strings.Fields(c.Text)
	if len(pats) == 0 {
		return nil, nil, fmt.Errorf("%s:%d: orderfree needs at least one package", c.File, c.Line)
	}
	var keys []string
	for k, fn := range P.Funcs {
		if len(fn.Blocks) == 0 || fn.Pkg == nil || !inModule(fn.Pkg.Pkg) {
			continue
		}
		for _, p := range pats {
			if strings.HasSuffix(fn.Pkg.Pkg.Path(), p) {
				keys = append(keys, k)
			}
		}
	}
	sort.Strings(keys)
	label := strings.Join(c.Labels, ",")
	var out []*Obligation
	var trusted []string
	for _, k := range keys {
		for _, l := range P.mapRangeLoops(P.Funcs[k]) {
			l.judge(P)
			name := fmt.Sprintf("[%s:%s#%d]", label, shortKey(k), l.ord)
			pos := P.Fset.Position(l.next.Pos())
			o := &Obligation{Func: unit, Name: name, Kind: "ground", Detail: fmt.Sprintf("map iteration #%d of %s (%s:%d) is order-free", l.ord, shortKey(k), filepathBase(pos.Filename), pos.Line), Clause: c,
				Goal: "true", Guard: "true", Solver: "order-judgement", Result: "unsat", Site: pos}
			if len(l.reasons) > 0 {
				if why, ok := P.Spec.OrderAccept[fmt.Sprintf("%s#%d", shortKey(k), l.ord)]; ok {
					trusted = append(trusted, fmt.Sprintf("order judgement, accepted map iteration %s#%d: %s", shortKey(k), l.ord, why))
				} else {
					o.Result = "sat"
					o.Model = "the iteration order can reach state that outlives the loop:\n  " + strings.Join(l.reasons, "\n  ")
				}
			}
			out = append(out, o)
		}
	}
	if len(out) == 0 {
		return nil, nil, fmt.Errorf("%s:%d: no map iteration found in %v", c.File, c.Line, pats)
	}
	return out, trusted, nil
}
