package main

import (
	"golang.org/x/tools/go/ssa"

	"encoding/json"
	"flag"
	"fmt"
	"os"
	"path/filepath"
	"runtime"
	"sort"
	"strings"
	"sync"
	"time"
)

type AggObl struct {
	Func    string   `json:"func"`
	Name    string   `json:"name"`
	Kinds   []string `json:"kinds"`
	Queries int      `json:"queries"`
	Status  string   `json:"status"` // discharged | refuted | undecided
	Solver  string   `json:"solver"`
	Ms      int64    `json:"ms"`
	Detail  string   `json:"detail,omitempty"`
	Dep     bool     `json:"dependency,omitempty"` // obligation of a contract the property's proofs rely on (thorough tier)
	failing *Obligation
	failVC  *VC
}

type FuncReport struct {
	Key          string   `json:"func"`
	Obligations  int      `json:"obligations"`
	Discharged   int      `json:"discharged"`
	Covers       string   `json:"covers"`
	Unsupported  []string `json:"unsupported,omitempty"`
	Warnings     []string `json:"warnings,omitempty"`
	Uncontracted []string `json:"callees_without_contract,omitempty"`
	Assumed      []string `json:"assumed_contracts_used,omitempty"`
	DefaultExt   []string `json:"default_external_summary,omitempty"`
	SolverMs     int64    `json:"solver_ms"`
}

func main() {
	if len(os.Args) < 2 {
		fmt.Fprintln(os.Stderr, "usage: gocv check|vc|funcs ...")
		os.Exit(2)
	}
	switch os.Args[1] {
	case "check":
		os.Exit(cmdCheck(os.Args[2:]))
	case "vc":
		os.Exit(cmdVC(os.Args[2:]))
	case "audit":
		os.Exit(cmdAudit(os.Args[2:]))
	case "sweep":
		os.Exit(cmdSweep(os.Args[2:]))
	case "sweepgen":
		os.Exit(cmdSweepGen(os.Args[2:]))
	default:
		fmt.Fprintln(os.Stderr, "unknown command")
		os.Exit(2)
	}
}

func loadAll(repo, verif string) (*Prog, error) {
	P, err := LoadProg(repo, []string{"./..."}, []string{filepath.Join(verif, "spec")})
	if P != nil {
		P.VerifDir = verif
	}
	return P, err
}

func cmdVC(args []string) int {
	fs := flag.NewFlagSet("vc", flag.ExitOnError)
	repo := fs.String("repo", "/repo", "")
	verif := fs.String("verif", "/verif", "")
	fn := fs.String("func", "", "function key (suffix match)")
	prop := fs.String("prop", "", "")
	fs.Parse(args)
	P, err := loadAll(*repo, *verif)
	if err != nil {
		fmt.Fprintln(os.Stderr, err)
		return 2
	}
	for k, f := range P.Funcs {
		if strings.HasSuffix(k, *fn) && len(f.Blocks) > 0 {
			vc := NewVC(P, f, *prop)
			vc.safetyProp = true
			if err := vc.Generate(); err != nil {
				fmt.Fprintln(os.Stderr, err)
				return 2
			}
			vc.finish()
			fmt.Println(vc.Script(vc.obls))
			for _, w := range vc.warnings {
				fmt.Fprintln(os.Stderr, "warning:", w)
			}
			for _, w := range vc.unsupported {
				fmt.Fprintln(os.Stderr, "unsupported:", w)
			}
		}
	}
	return 0
}

func cmdCheck(args []string) int {
	fs := flag.NewFlagSet("check", flag.ExitOnError)
	repo := fs.String("repo", "/repo", "")
	verif := fs.String("verif", "/verif", "")
	prop := fs.String("prop", "", "property id")
	tier := fs.String("tier", "quick", "")
	work := fs.String("work", "", "scratch dir for SMT files")
	only := fs.String("only", "", "restrict to functions whose key contains this")
	verbose := fs.Bool("v", false, "")
	upd := fs.Bool("update-baseline", false, "record the discharged obligations of this run as the baseline of the property")
	fs.Parse(args)
	t0 := time.Now()
	if *work == "" {
		*work = filepath.Join(*verif, "work", *prop)
	}
	os.RemoveAll(*work)
	os.MkdirAll(*work, 0o755)
	P, err := loadAll(*repo, *verif)
	if err != nil {
		fmt.Fprintln(os.Stderr, "ENGINE-ERROR:", err)
		return 2
	}
	run := &CheckRun{P: P, Prop: *prop, Tier: *tier, Work: *work, Verif: *verif, Verbose: *verbose, Only: *only, T0: t0, UpdateBaseline: *upd}
	return run.Run()
}

type CheckRun struct {
	genErr         map[string]string
	P              *Prog
	Prop           string
	Tier           string
	Work           string
	Verif          string
	Verbose        bool
	Only           string
	T0             time.Time
	UpdateBaseline bool
	depSet         map[string]bool
}

// propFuncs selects the functions whose contracts carry a clause labelled for the property.
func (r *CheckRun) propFuncs() ([]string, error) {
	var keys []string
	for k, c := range r.P.Spec.Contracts {
		if c.Assumed {
			continue
		}
		touch := false
		all := append(append(append([]*Clause{}, c.Requires...), c.Ensures...), c.AssertCall...)
		for _, cs := range c.LoopInv {
			all = append(all, cs...)
		}
		for _, eo := range c.ErrorOnly {
			all = append(all, eo.Clause)
		}
		for _, cl := range all {
			for _, l := range cl.Labels {
				if l == r.Prop || strings.HasPrefix(l, r.Prop+".") {
					touch = true
				}
			}
		}
		for _, sp := range c.SafetyProps {
			if sp == r.Prop {
				touch = true
			}
		}
		if !touch {
			continue
		}
		fn, ok := r.P.Funcs[c.Target]
		if !ok || len(fn.Blocks) == 0 {
			// interface methods and externals carry contracts but have no body
			if ok || strings.Contains(k, ")") {
				continue
			}
			return nil, fmt.Errorf("contract for %s: no such function in the loaded program", k)
		}
		if r.Only != "" && !strings.Contains(k, r.Only) {
			continue
		}
		keys = append(keys, k)
	}
	sort.Strings(keys)
	for _, l := range r.P.Spec.Lemmas {
		for _, lb := range l.Labels {
			if lb == r.Prop || strings.HasPrefix(lb, r.Prop+".") {
				if len(keys) == 0 || keys[len(keys)-1] != "lemmas" {
					keys = append(keys, "lemmas")
				}
			}
		}
	}
	return keys, nil
}

func (r *CheckRun) Run() (code int) {
	defer func() {
		if rec := recover(); rec != nil {
			if ee, ok := rec.(evalErr); ok {
				fmt.Fprintln(os.Stderr, "ENGINE-ERROR:", string(ee))
				code = 2
				return
			}
			panic(rec)
		}
	}()
	P := r.P
	// every contract must name an existing function or interface method
	for k, c := range P.Spec.Contracts {
		k = c.Target
		if _, ok := P.Funcs[k]; !ok && !c.Assumed && !P.isInterfaceMethod(k) {
			fmt.Fprintf(os.Stderr, "ENGINE-ERROR: contract at %s:%d names unknown function %s\n", c.File, c.Line, k)
			return 2
		}
	}
	keys, err := r.propFuncs()
	if err != nil {
		fmt.Fprintln(os.Stderr, "ENGINE-ERROR:", err)
		return 2
	}
	// modular soundness guard: every contract that callers rely on must be verified by some claimed check
	if ps := claimedProps(r.Verif); len(ps) > 0 && r.Only == "" {
		problems, _, err := auditContracts(P, r.Verif, ps)
		if err != nil {
			fmt.Fprintln(os.Stderr, "ENGINE-ERROR:", err)
			return 2
		}
		for _, p := range problems {
			fmt.Fprintln(os.Stderr, "ENGINE-ERROR: unverified contract:", p)
		}
		if len(problems) > 0 {
			return 2
		}
	}
	P.computeModsets()
	// thorough tier: also verify, in full, every contract the selected units rely on at their call sites
	// (transitively, through uncontracted callees that are inlined), so that the property's check is self-contained
	depSet := map[string]bool{}
	fullUnit := map[string]bool{} // selected units that other units call: their whole contract is verified, too
	if r.Tier == "thorough" && r.Only == "" {
		deps, full := r.depClosure(keys)
		for _, d := range deps {
			depSet[d] = true
			keys = append(keys, d)
		}
		fullUnit = full
	}
	r.depSet = depSet
	quickMs, slowMs := 4000, 30000
	if r.Tier == "thorough" {
		quickMs, slowMs = 10000, 120000
	}
	type fres struct {
		vc        *VC
		obls      []*Obligation
		err       error
		genFailed bool
	}
	var knownAll []KnownFinding
	loadJSON(filepath.Join(r.Verif, "known_findings.json"), &knownAll)
	results := make([]fres, len(keys))
	// generation and solving of the units run concurrently (registries are mutex-guarded)
	var wg sync.WaitGroup
	sem := make(chan struct{}, runtime.NumCPU())
	for i, k := range keys {
		wg.Add(1)
		go func(i int, k string) {
			defer wg.Done()
			sem <- struct{}{}
			defer func() { <-sem }()
			t0u := time.Now()
			if k == "lemmas" {
				vc := &VC{P: P, key: "lemmas", pre: NewPrelude(), vals: map[ssa.Value]string{}, prop: r.Prop, uncontracted: map[string]bool{}, assumedUsed: map[string]bool{}, defaultExt: map[string]bool{}, inlined: map[string]bool{}, groundUsed: map[string]bool{}, workDir: r.Work}
				var ls []*Clause
				for _, l := range P.Spec.Lemmas {
					if l.HasProp(r.Prop) && len(l.Labels) > 0 {
						ls = append(ls, l)
					}
				}
				err := vc.GenerateLemmas(ls)
				if err == nil {
					vc.finish()
					err = vc.Discharge(vc.obls, r.Work, quickMs, slowMs)
				}
				results[i] = fres{vc: vc, obls: vc.obls, err: err}
				return
			}
			unitProp := r.Prop
			if depSet[k] || fullUnit[k] {
				unitProp = "" // a dependency is verified against its whole contract, whatever the labels
			}
			vc := NewVCFor(P, P.Spec.Contracts[k], unitProp)
			vc.workDir = r.Work
			vc.crossCheck = r.Tier == "thorough" && !depSet[k]
			vc.knownOpen = map[string]bool{}
			for _, kf := range knownAll {
				if kf.Status == "open" && (kf.Property == r.Prop || depSet[k] || fullUnit[k]) && kf.Func == vc.key {
					vc.knownOpen[kf.Obligation] = true
				}
			}
			if c := vc.contract; c != nil {
				vc.safetyProp = false
				for _, sp := range c.SafetyProps {
					if sp == r.Prop && !depSet[k] {
						vc.safetyProp = true
					}
				}
			}
			err := func() (err error) {
				defer func() {
					if rec := recover(); rec != nil {
						if ee, ok := rec.(evalErr); ok {
							err = fmt.Errorf("%s: %s", k, string(ee))
							return
						}
						panic(rec)
					}
				}()
				return vc.Generate()
			}()
			tGen := time.Since(t0u)
			genFailed := err != nil
			if err == nil && vc.contract != nil {
				// vacuity guard: every checked postcondition of the contract must have produced an obligation
				have := map[string]bool{}
				for _, o := range vc.obls {
					have[o.Name] = true
				}
				for _, e := range vc.contract.Ensures {
					if !vc.clauseOn(e) || e.Trusted {
						continue
					}
					name := "[" + strings.Join(e.Labels, ",") + "]"
					if len(e.Labels) == 0 {
						name = unlabelledName(e)
					}
					if !have[name] {
						err = fmt.Errorf("%s: postcondition %s produced no obligation (no normal return was translated)", k, name)
					}
				}
			}
			if err == nil {
				vc.finish()
				err = vc.Discharge(vc.obls, r.Work, quickMs, slowMs)
				if err != nil && (strings.Contains(err.Error(), "Sorts ") || strings.Contains(err.Error(), "Sort mismatch") || strings.Contains(err.Error(), "unknown constant")) {
					// an ill-typed condition: the contract's expressions no longer fit the types in the changed code
					genFailed = true
				}
			}
			if r.Verbose {
				fmt.Fprintf(os.Stderr, "unit %s: generation %.1fs (%d feasibility checks), solving %.1fs, %d obligations\n", k, tGen.Seconds(), vc.nfeas, (time.Since(t0u) - tGen).Seconds(), len(vc.obls))
			}
			results[i] = fres{vc: vc, obls: vc.obls, err: err, genFailed: genFailed}
		}(i, k)
	}
	wg.Wait()
	engineErr := false
	r.genErr = map[string]string{}
	baseline0 := map[string][]string{}
	loadJSON(filepath.Join(r.Verif, "baseline", "obligations.json"), &baseline0)
	for i := range results {
		if results[i].err != nil {
			// a contract that can no longer be evaluated on the function it is attached to (a variable it names
			// is gone, a loop it annotates is gone) fails the obligations that were proved for that function
			if results[i].genFailed && results[i].vc != nil {
				proved := false
				for _, n := range append(append([]string{}, baseline0[r.Prop]...), baseline0[r.Prop+"/deps"]...) {
					if strings.HasPrefix(n, results[i].vc.key+" ") {
						proved = true
					}
				}
				if proved {
					r.genErr[results[i].vc.key] = results[i].err.Error()
					results[i].obls = nil
					continue
				}
			}
			fmt.Fprintln(os.Stderr, "ENGINE-ERROR:", results[i].err)
			engineErr = true
		}
	}
	if engineErr {
		return 2
	}
	// aggregate
	var aggs []*AggObl
	var freports []FuncReport
	vacuity := []string{}
	for _, fr := range results {
		vc := fr.vc
		byName := map[string]*AggObl{}
		var order []string
		coverSat, coverUnsat, coverUnknown := 0, 0, 0
		var solverMs int64
		for _, o := range fr.obls {
			solverMs += o.Ms
			if o.Cover {
				switch o.Result {
				case "sat":
					coverSat++
				case "unsat":
					coverUnsat++
					if o.Name == "cover:entry" {
						vacuity = append(vacuity, vc.key+": requires are unsatisfiable")
					}
				default:
					coverUnknown++
				}
				continue
			}
			a, ok := byName[o.Name]
			if !ok {
				a = &AggObl{Func: vc.key, Name: o.Name, Status: "discharged", Dep: depSet[vc.key] || (fullUnit[vc.key] && o.Clause != nil && !o.Clause.HasProp(r.Prop))}
				byName[o.Name] = a
				order = append(order, o.Name)
			}
			a.Queries++
			a.Ms += o.Ms
			if !contains(a.Kinds, o.Kind) {
				a.Kinds = append(a.Kinds, o.Kind)
			}
			if a.Solver == "" {
				a.Solver = o.Solver
			}
			switch o.Result {
			case "unsat":
			case "sat":
				if a.Status != "refuted" {
					a.Status = "refuted"
					a.failing, a.failVC = o, vc
					a.Detail = o.Detail
					a.Solver = o.Solver
				}
			default:
				if a.Status == "discharged" {
					a.Status = "undecided"
					a.failing, a.failVC = o, vc
					a.Detail = o.Detail
					a.Solver = o.Solver
				}
			}
		}
		if _, inapplicable := r.genErr[vc.key]; inapplicable {
			continue
		}
		if coverSat == 0 && coverUnknown == 0 && vc.retCount > 0 {
			vacuity = append(vacuity, vc.key+": no return is reachable")
		}
		n, d := 0, 0
		for _, name := range order {
			a := byName[name]
			aggs = append(aggs, a)
			n++
			if a.Status == "discharged" {
				d++
			}
		}
		freports = append(freports, FuncReport{Key: vc.key, Obligations: n, Discharged: d,
			Covers:      fmt.Sprintf("%d reachable, %d unreachable, %d unknown", coverSat, coverUnsat, coverUnknown),
			Unsupported: vc.unsupported, Warnings: vc.warnings, Uncontracted: sortedKeys(vc.uncontracted),
			Assumed: sortedKeys(vc.assumedUsed), DefaultExt: sortedKeys(vc.defaultExt), SolverMs: solverMs})
	}
	return r.report(aggs, freports, vacuity)
}

// depClosure: the contracts (non-assumed, with a body) reachable from the selected units through static calls,
// looking through uncontracted in-module callees (they are inlined into their callers); selected units excluded.
func (r *CheckRun) depClosure(keys []string) ([]string, map[string]bool) {
	P := r.P
	selected := map[string]bool{}
	var work []*ssa.Function
	for _, k := range keys {
		selected[k] = true
		if c := P.Spec.Contracts[k]; c != nil {
			if fn := P.Funcs[c.Target]; fn != nil {
				work = append(work, fn)
			}
		}
	}
	seenFn := map[*ssa.Function]bool{}
	deps := map[string]bool{}
	full := map[string]bool{}
	for len(work) > 0 {
		fn := work[len(work)-1]
		work = work[:len(work)-1]
		if seenFn[fn] || len(fn.Blocks) == 0 {
			continue
		}
		seenFn[fn] = true
		work = append(work, fn.AnonFuncs...)
		for _, b := range fn.Blocks {
			for _, ins := range b.Instrs {
				ci, ok := ins.(ssa.CallInstruction)
				if !ok {
					continue
				}
				callee := ci.Common().StaticCallee()
				if callee == nil || callee.Pkg == nil || !inModule(callee.Pkg.Pkg) || len(callee.Blocks) == 0 {
					continue
				}
				k := funcKey(callee)
				c := P.Spec.Contracts[k]
				behs := P.Spec.Behaviors[k]
				if c == nil && len(behs) == 0 {
					work = append(work, callee) // inlined: its callees are the caller's
					continue
				}
				if c != nil && c.Assumed {
					continue
				}
				if c != nil {
					if selected[k] {
						full[k] = true
					} else {
						deps[k] = true
					}
				}
				for _, bc := range behs {
					if bc.Assumed {
						continue
					}
					if selected[bc.Key] {
						full[bc.Key] = true
					} else {
						deps[bc.Key] = true
					}
				}
				work = append(work, callee)
			}
		}
	}
	var out []string
	for k := range deps {
		out = append(out, k)
	}
	sort.Strings(out)
	return out, full
}

func contains(xs []string, x string) bool {
	for _, y := range xs {
		if x == y {
			return true
		}
	}
	return false
}

func (P *Prog) isInterfaceMethod(key string) bool {
	// "(pkg.Iface).Method"
	if !strings.HasPrefix(key, "(") {
		return false
	}
	end := strings.Index(key, ")")
	recv := strings.TrimPrefix(key[1:end], "*")
	i := strings.LastIndex(recv, ".")
	if i < 0 {
		return false
	}
	p := P.PkgByPath[recv[:i]]
	if p == nil {
		return false
	}
	obj := p.Scope().Lookup(recv[i+1:])
	if obj == nil {
		return false
	}
	return true
}

// ---------- reporting ----------

type KnownFinding struct {
	Property   string `json:"property"`
	Func       string `json:"func"`
	Obligation string `json:"obligation"`
	Status     string `json:"status"` // open | fixed
	What       string `json:"what"`
	Commit     string `json:"commit,omitempty"`
	Replay     string `json:"replay,omitempty"`
	ReplayPkg  string `json:"replay_pkg,omitempty"`
	ReplayTest string `json:"replay_test,omitempty"`
}

func loadJSON(path string, v interface{}) error {
	b, err := os.ReadFile(path)
	if err != nil {
		return err
	}
	return json.Unmarshal(b, v)
}

func (r *CheckRun) report(aggs []*AggObl, freports []FuncReport, vacuity []string) int {
	var known []KnownFinding
	loadJSON(filepath.Join(r.Verif, "known_findings.json"), &known)
	baseline := map[string][]string{}
	loadJSON(filepath.Join(r.Verif, "baseline", "obligations.json"), &baseline)
	inBase := map[string]bool{}
	for _, n := range baseline[r.Prop] {
		inBase[n] = true
	}
	if r.Tier == "thorough" {
		for _, n := range baseline[r.Prop+"/deps"] {
			inBase[n] = true
		}
	}
	exit := 0
	var lines []string
	total, discharged := 0, 0
	var samples []interface{}
	knownPrinted := []string{}
	var oblJSON []map[string]interface{}
	violations := 0
	seenNow := map[string]bool{}
	for _, a := range aggs {
		id := a.Func + " " + a.Name
		seenNow[id] = true
		total++
		oblJSON = append(oblJSON, map[string]interface{}{"func": a.Func, "name": a.Name, "kinds": a.Kinds, "queries": a.Queries, "status": a.Status, "solver": a.Solver, "ms": a.Ms})
		if a.Status == "discharged" {
			discharged++
			if len(samples) < 4 {
				samples = append(samples, map[string]interface{}{"obligation": id, "kinds": a.Kinds, "queries": a.Queries})
			}
			continue
		}
		// failing obligation
		if a.Dep {
			// an open finding of another property inside a dependency is reported by that property's own check
			skip := false
			for i := range known {
				if known[i].Status == "open" && known[i].Func == a.Func && known[i].Obligation == a.Name {
					skip = true
				}
			}
			if skip {
				total--
				continue
			}
		}
		kf := findKnown(known, r.Prop, a.Func, a.Name)
		if kf != nil && kf.Status == "open" {
			lines = append(lines, fmt.Sprintf("KNOWN-FINDING: property=%s %s %s: %s", r.Prop, shortKey(a.Func), a.Name, kf.What))
			if r.Tier == "thorough" && kf.Replay != "" && kf.ReplayPkg != "" {
				// thorough tier: show that the recorded failing input still fails on the real code
				if src, err := os.ReadFile(kf.Replay); err == nil {
					dir := filepath.Join(r.Verif, "replays")
					os.MkdirAll(dir, 0o755)
					rp := filepath.Join(dir, fmt.Sprintf("%s_finding_%s.txt", r.Prop, sanitize(a.Name)))
					os.WriteFile(rp, []byte("known finding replay: "+kf.Replay+"\n"), 0o644)
					ok, out := r.runReplay(&ReplaySpec{PkgPath: kf.ReplayPkg, TestName: kf.ReplayTest, Source: string(src)}, rp)
					if ok {
						lines = append(lines, fmt.Sprintf("  finding replay %s %s: still fails on the real code (confirmed)", kf.ReplayPkg, kf.ReplayTest))
					} else {
						lines = append(lines, fmt.Sprintf("  finding replay %s %s: did NOT reproduce: %s", kf.ReplayPkg, kf.ReplayTest, trunc(out, 200)))
					}
				}
			}
			knownPrinted = append(knownPrinted, id)
			total--
			continue
		}
		replay := r.writeReplay(a)
		if a.Status == "refuted" {
			confirmed := r.tryReplay(a, replay)
			suffix := ""
			if !confirmed {
				suffix = " no-failing-input-found"
			}
			// a refuted safety or frame obligation of a function whose other obligations are in the baseline is new code that can fault / writes outside the modifies clause
			funcProved := false
			for n := range inBase {
				if strings.HasPrefix(n, a.Func+" ") {
					funcProved = true
				}
			}
			// an instance of a package-wide judgement clause (orderfree, secretflow, nocall: "[label:instance]") whose other
			// instances are in the baseline is new code that the clause quantifies over: the clause fails
			clauseProved := false
			if i := strings.Index(a.Name, ":"); strings.HasPrefix(a.Name, "[") && i > 0 && a.failing != nil && a.failing.Kind == "ground" {
				for n := range inBase {
					if strings.HasPrefix(n, a.Func+" "+a.Name[:i+1]) {
						clauseProved = true
					}
				}
			}
			if inBase[id] || len(baseline[r.Prop]) == 0 || confirmed || ((a.Name == "safety" || a.Name == "frame") && funcProved) || clauseProved {
				lines = append(lines, fmt.Sprintf("VIOLATION property=%s replay=%s%s", r.Prop, replay, suffix))
				violations++
				exit = 1
			} else {
				lines = append(lines, fmt.Sprintf("UNDECIDED property=%s obligation=%q (refuted by solver, never proved on the baseline tree) replay=%s", r.Prop, id, replay))
				if exit == 0 {
					exit = 2
				}
			}
		} else {
			confirmed := false
			if a.failing != nil && (a.failing.Kind == "safety" || (a.failing.Clause != nil && a.failing.Clause.Kind == "erroronly")) {
				confirmed = r.tryReplay(a, replay)
			}
			if inBase[id] || confirmed {
				suffix := " no-failing-input-found"
				if confirmed {
					suffix = ""
				}
				lines = append(lines, fmt.Sprintf("VIOLATION property=%s replay=%s%s", r.Prop, replay, suffix))
				violations++
				exit = 1
			} else {
				lines = append(lines, fmt.Sprintf("UNDECIDED property=%s obligation=%q replay=%s", r.Prop, id, replay))
				if exit == 0 {
					exit = 2
				}
			}
		}
	}
	// obligations that were in the baseline but were not generated now (contract or function removed)
	for _, n := range baseline[r.Prop] {
		if !seenNow[n] && r.Only == "" {
			kfOpen := false
			for _, k := range known {
				if k.Status == "open" && k.Property == r.Prop && k.Func+" "+k.Obligation == n {
					kfOpen = true
				}
			}
			if kfOpen {
				continue
			}
			inapplicable := ""
			for fk, msg := range r.genErr {
				if strings.HasPrefix(n, fk+" ") {
					inapplicable = msg
				}
			}
			if inapplicable != "" {
				dir := filepath.Join(r.Verif, "replays")
				os.MkdirAll(dir, 0o755)
				path := filepath.Join(dir, fmt.Sprintf("%s_%s.txt", r.Prop, sanitize(n)))
				os.WriteFile(path, []byte(fmt.Sprintf("property: %s\nobligation: %s\nstatus: failed\nreason: the contract that carried this obligation can no longer be evaluated on the function: %s\n", r.Prop, n, inapplicable)), 0o644)
				lines = append(lines, fmt.Sprintf("VIOLATION property=%s replay=%s no-failing-input-found", r.Prop, path))
				violations++
				exit = 1
				continue
			}
			lines = append(lines, fmt.Sprintf("UNDECIDED property=%s obligation=%q is in the baseline but was not generated on this tree", r.Prop, n))
			if exit == 0 {
				exit = 2
			}
		}
	}
	for _, v := range vacuity {
		lines = append(lines, "ENGINE-ERROR: vacuity: "+v)
		if exit == 0 {
			exit = 2
		}
	}
	if total == 0 && len(knownPrinted) == 0 && violations == 0 {
		lines = append(lines, "ENGINE-ERROR: no obligations generated for "+r.Prop)
		exit = 2
	}
	for _, l := range lines {
		fmt.Println(l)
	}
	if r.UpdateBaseline && r.Only == "" {
		var names, depNames []string
		for _, a := range aggs {
			if a.Status == "discharged" {
				if a.Dep {
					depNames = append(depNames, a.Func+" "+a.Name)
				} else {
					names = append(names, a.Func+" "+a.Name)
				}
			}
		}
		sort.Strings(names)
		sort.Strings(depNames)
		if r.Tier == "thorough" {
			baseline[r.Prop+"/deps"] = depNames
		}
		baseline[r.Prop] = names
		b, _ := json.MarshalIndent(baseline, "", " ")
		os.MkdirAll(filepath.Join(r.Verif, "baseline"), 0o755)
		os.WriteFile(filepath.Join(r.Verif, "baseline", "obligations.json"), b, 0o644)
		fmt.Printf("baseline for %s updated: %d obligations\n", r.Prop, len(names))
	}
	r.writeEvidence(total, discharged, violations, samples, oblJSON, freports, knownPrinted)
	fmt.Printf("gocv: property %s tier %s: %d obligations, %d discharged, %d known findings, %d violations, %.1fs\n", r.Prop, r.Tier, total, discharged, len(knownPrinted), violations, time.Since(r.T0).Seconds())
	return exit
}

func findKnown(known []KnownFinding, prop, fn, name string) *KnownFinding {
	for i := range known {
		k := &known[i]
		if k.Property == prop && k.Func == fn && k.Obligation == name {
			return k
		}
	}
	return nil
}

func (r *CheckRun) writeReplay(a *AggObl) string {
	dir := filepath.Join(r.Verif, "replays")
	os.MkdirAll(dir, 0o755)
	path := filepath.Join(dir, fmt.Sprintf("%s_%s.txt", r.Prop, sanitize(shortKey(a.Func)+"_"+a.Name)))
	var b strings.Builder
	fmt.Fprintf(&b, "property: %s\nfunction: %s\nobligation: %s\nstatus: %s\nsolver: %s\n", r.Prop, a.Func, a.Name, a.Status, a.Solver)
	if a.failing != nil {
		o := a.failing
		fmt.Fprintf(&b, "kind: %s\nsite: %s\ndetail: %s\n", o.Kind, o.Site, o.Detail)
		if o.Clause != nil {
			fmt.Fprintf(&b, "clause: %s:%d: %s\n", o.Clause.File, o.Clause.Line, o.Clause.Text)
		}
		fmt.Fprintf(&b, "\n--- solver output ---\n%s\n", trunc2(o.Model, 20000))
		if a.failVC != nil {
			sf := path + ".smt2"
			os.WriteFile(sf, []byte(a.failVC.Standalone(o, true)), 0o644)
			fmt.Fprintf(&b, "\nquery: %s\n", sf)
		}
	}
	os.WriteFile(path, []byte(b.String()), 0o644)
	return path
}

func trunc2(s string, n int) string {
	if len(s) > n {
		return s[:n] + "\n...[truncated]"
	}
	return s
}

func (r *CheckRun) writeEvidence(total, discharged, violations int, samples []interface{}, obls []map[string]interface{}, freports []FuncReport, known []string) {
	trusted := map[string]bool{}
	var solverMs int64
	var fnames []string
	for _, f := range freports {
		fnames = append(fnames, f.Key)
		solverMs += f.SolverMs
		for _, a := range f.Assumed {
			trusted["assumed contract: "+a] = true
		}
		for _, a := range f.DefaultExt {
			trusted["default external summary: "+a] = true
		}
		for _, a := range f.Uncontracted {
			trusted["callee without contract (havoc of inferred modset): "+a] = true
		}
		for _, a := range f.Unsupported {
			trusted["UNSUPPORTED construct in "+shortKey(f.Key)+": "+a] = true
		}
	}
	for _, a := range engineAssumptions {
		trusted[a] = true
	}
	if len(samples) == 0 {
		samples = append(samples, "none")
	}
	// obligations discharged per back end (as measured on this run)
	byBackend := map[string]int{}
	for _, o := range obls {
		if o["status"] == "discharged" {
			if sv, ok := o["solver"].(string); ok {
				byBackend[sv]++
			}
		}
	}
	ev := map[string]interface{}{
		"property_id": r.Prop,
		"tier":        r.Tier,
		"seed":        0,
		"level":       "proof",
		"coverage": map[string]interface{}{
			"obligations":              total,
			"discharged":               discharged,
			"checker_cmd":              fmt.Sprintf("/verif/check %s %s", r.Prop, r.Tier),
			"trusted_base":             sortedKeys(trusted),
			"samples":                  samples,
			"functions_under_contract": fnames,
			"functions":                freports,
			"obligation_list":          obls,
			"solver_time_s":            float64(solverMs) / 1000,
			"known_findings_printed":   known,
			"back_ends":                "SMT: z3-new 5.1.0 first (deterministic resource limit), then z3 4.8.12 / z3-new / cvc5 1.0.3 raced; thorough tier re-checks every proof on the other two. Non-SMT back ends, each decided on the real artefacts: ground-eval (embedded data with the real library functions), table-eval (tables produced by running the real constructors), json-judgement (derivation over the type declarations), order-judgement (map-iteration order over go/ssa), flow-judgement (secret data dependence over go/ssa)",
			"discharged_by_back_end":   byBackend,
		},
		"assumptions": engineAssumptions,
		"wall_s":      time.Since(r.T0).Seconds(),
		"violations":  violations,
	}
	r.extraEvidence(ev)
	b, _ := json.MarshalIndent(ev, "", " ")
	os.MkdirAll(filepath.Join(r.Verif, "evidence"), 0o755)
	os.WriteFile(filepath.Join(r.Verif, "evidence", r.Prop+".json"), b, 0o644)
}

var engineAssumptions = []string{
	"sequential execution (mutexes are no-ops, no goroutine interleavings)",
	"machine integers treated as mathematical integers (no overflow obligations)",
	"append allocates a fresh backing array (no in-capacity aliasing); interior pointers do not escape to in-module callees",
	"strings are an uninterpreted sort with length, concatenation, substring, prefix/suffix facts on literals only",
	"the VC generator (gocv), go/ssa and the SMT solvers are trusted",
}

func (r *CheckRun) extraEvidence(ev map[string]interface{}) {}

// cmdSweepGen generates (without solving) a VC for every module function: an engine self-test.
func cmdSweepGen(args []string) int {
	fs := flag.NewFlagSet("sweepgen", flag.ExitOnError)
	repo := fs.String("repo", "/repo", "")
	verif := fs.String("verif", "/verif", "")
	fs.Parse(args)
	P, err := loadAll(*repo, *verif)
	if err != nil {
		fmt.Fprintln(os.Stderr, err)
		return 2
	}
	var keys []string
	for k, f := range P.Funcs {
		if len(f.Blocks) > 0 && f.Pkg != nil && inModule(f.Pkg.Pkg) && !strings.Contains(k, "/mocks/") {
			keys = append(keys, k)
		}
	}
	sort.Strings(keys)
	nobl := 0
	unsup := map[string]int{}
	for _, k := range keys {
		func() {
			defer func() {
				if r := recover(); r != nil {
					fmt.Printf("PANIC %s: %v\n", k, r)
				}
			}()
			vc := NewVC(P, P.Funcs[k], "")
			vc.safetyProp = true
			if err := vc.Generate(); err != nil {
				fmt.Printf("ERROR %s: %v\n", k, err)
				return
			}
			vc.finish()
			nobl += len(vc.obls)
			for _, u := range vc.unsupported {
				unsup[u]++
				fmt.Printf("UNSUP %s: %s\n", shortKey(k), u)
			}
		}()
	}
	fmt.Printf("%d functions, %d obligations\n", len(keys), nobl)
	return 0
}

// auditContracts lists the contracts with a body that no claimed property selects for verification, and the
// postconditions labelled only for unclaimed properties: both would be relied upon at call sites without ever
// being checked.
func auditContracts(P *Prog, verif string, props []string) ([]string, int, error) {
	sel := map[string]bool{}
	claimed := map[string]bool{}
	for _, p := range props {
		p = strings.TrimSpace(p)
		if p == "" {
			continue
		}
		claimed[p] = true
		r := &CheckRun{P: P, Prop: p, Verif: verif}
		keys, err := r.propFuncs()
		if err != nil {
			return nil, 0, err
		}
		for _, k := range keys {
			sel[k] = true
		}
	}
	var names []string
	for k := range P.Spec.Contracts {
		names = append(names, k)
	}
	sort.Strings(names)
	var out []string
	n := 0
	for _, k := range names {
		c := P.Spec.Contracts[k]
		if c.Assumed {
			continue
		}
		fn, ok := P.Funcs[c.Target]
		if !ok || len(fn.Blocks) == 0 {
			continue
		}
		n++
		if !sel[k] {
			out = append(out, fmt.Sprintf("contract of %s (%s:%d) is verified by no claimed property", k, filepathBase(c.File), c.Line))
		}
		for _, e := range c.Ensures {
			if e.Trusted || len(e.Labels) == 0 {
				continue
			}
			ok, propLabel := false, false
			for _, l := range e.Labels {
				if len(l) >= 3 && l[0] == 'C' && l[1] >= '0' && l[1] <= '9' {
					propLabel = true
					if claimed[l[:3]] {
						ok = true
					}
				}
			}
			if propLabel && !ok {
				out = append(out, fmt.Sprintf("postcondition %v of %s (%s:%d) is labelled only for properties that are not claimed", e.Labels, k, filepathBase(e.File), e.Line))
			}
		}
	}
	return out, n, nil
}

func claimedProps(verif string) []string {
	var m struct {
		Checks []struct {
			PropertyID string `json:"property_id"`
		} `json:"checks"`
	}
	loadJSON(filepath.Join(verif, "MANIFEST.json"), &m)
	var out []string
	for _, c := range m.Checks {
		out = append(out, c.PropertyID)
	}
	return out
}

func cmdAudit(args []string) int {
	fs := flag.NewFlagSet("audit", flag.ExitOnError)
	repo := fs.String("repo", "/repo", "")
	verif := fs.String("verif", "/verif", "")
	props := fs.String("props", "", "comma separated claimed properties (default: those in MANIFEST.json)")
	fs.Parse(args)
	P, err := loadAll(*repo, *verif)
	if err != nil {
		fmt.Fprintln(os.Stderr, err)
		return 2
	}
	ps := strings.Split(*props, ",")
	if *props == "" {
		ps = claimedProps(*verif)
	}
	problems, n, err := auditContracts(P, *verif, ps)
	if err != nil {
		fmt.Fprintln(os.Stderr, err)
		return 2
	}
	for _, p := range problems {
		fmt.Println("UNVERIFIED", p)
	}
	fmt.Printf("audit: %d contracts with a body, %d problems\n", n, len(problems))
	if len(problems) > 0 {
		return 1
	}
	return 0
}

// cmdSweep is the zero-annotation sweep: for every module function WITHOUT a contract (in the packages matching
// -pkg) it generates the safety obligations of the listed kinds with no precondition at all and prints the ones the
// solver refutes. The output is a list of candidates to read, not a verdict (no precondition means many are
// unreachable); nothing registered in MANIFEST depends on it.
func cmdSweep(args []string) int {
	fs := flag.NewFlagSet("sweep", flag.ExitOnError)
	repo := fs.String("repo", "/repo", "")
	verif := fs.String("verif", "/verif", "")
	pkg := fs.String("pkg", "", "substring of the package path")
	kinds := fs.String("kinds", "index out of range,slice bounds,type assertion,division by zero,nil map", "comma separated substrings of obligation texts")
	fs.Parse(args)
	P, err := loadAll(*repo, *verif)
	if err != nil {
		fmt.Fprintln(os.Stderr, err)
		return 2
	}
	P.computeModsets()
	var keys []string
	for k, f := range P.Funcs {
		if len(f.Blocks) > 0 && f.Pkg != nil && inModule(f.Pkg.Pkg) && !strings.Contains(k, "/mocks/") && strings.Contains(f.Pkg.Pkg.Path(), *pkg) {
			if _, has := P.Spec.Contracts[k]; !has && len(P.Spec.Behaviors[k]) == 0 {
				keys = append(keys, k)
			}
		}
	}
	sort.Strings(keys)
	work, _ := os.MkdirTemp("", "gocv-sweep")
	defer os.RemoveAll(work)
	ks := strings.Split(*kinds, ",")
	for _, k := range keys {
		func() {
			defer func() {
				if r := recover(); r != nil {
					fmt.Printf("SKIP %s: %v\n", shortKey(k), r)
				}
			}()
			vc := NewVC(P, P.Funcs[k], "")
			vc.safetyProp = true
			vc.workDir = work
			if err := vc.Generate(); err != nil {
				fmt.Printf("SKIP %s: %v\n", shortKey(k), err)
				return
			}
			vc.finish()
			var sel []*Obligation
			for _, o := range vc.obls {
				if o.Kind != "safety" {
					continue
				}
				for _, kk := range ks {
					if strings.Contains(o.Detail, strings.TrimSpace(kk)) {
						sel = append(sel, o)
						break
					}
				}
			}
			if len(sel) == 0 {
				return
			}
			if err := vc.Discharge(sel, work, 2000, 4000); err != nil {
				fmt.Printf("SKIP %s: %v\n", shortKey(k), err)
				return
			}
			for _, o := range sel {
				if o.Result == "sat" {
					fmt.Printf("REFUTED %s @%s:%d: %s\n", shortKey(k), filepathBase(o.Site.Filename), o.Site.Line, o.Detail)
				}
			}
		}()
	}
	return 0
}
