package main

import (
	"context"
	"encoding/json"
	"fmt"
	"go/types"
	"os"
	"os/exec"
	"path/filepath"
	"regexp"
	"strings"
	"time"
)

// A replay is a Go test injected into a package of /repo with `go test -overlay` (nothing is written to the
// repository). The test encodes the failing input of an obligation and fails iff the real code misbehaves on it.
type ReplaySpec struct {
	PkgPath  string // import path of the package the test lives in
	TestName string
	Source   string // complete test file
	What     string // one line: the failing input
}

// runReplay returns (confirmed, output): confirmed iff the test ran and failed.
func (r *CheckRun) runReplay(rs *ReplaySpec, replayPath string) (bool, string) {
	var dir string
	for _, p := range r.P.Pkgs {
		if p.PkgPath == rs.PkgPath && len(p.GoFiles) > 0 {
			dir = filepath.Dir(p.GoFiles[0])
		}
	}
	if dir == "" {
		return false, "package " + rs.PkgPath + " not loaded"
	}
	src := replayPath + ".replay_test.go"
	if err := os.WriteFile(src, []byte(rs.Source), 0o644); err != nil {
		return false, err.Error()
	}
	ov := replayPath + ".overlay.json"
	b, _ := json.Marshal(map[string]map[string]string{"Replace": {filepath.Join(dir, "zz_gocv_replay_test.go"): src}})
	os.WriteFile(ov, b, 0o644)
	ctx, cancel := context.WithTimeout(context.Background(), 180*time.Second)
	defer cancel()
	cmd := exec.CommandContext(ctx, "go", "test", "-overlay", ov, "-vet=off", "-count=1", "-timeout", "120s", "-run", "^"+rs.TestName+"$", ".")
	cmd.Dir = dir
	cmd.Env = append(os.Environ(), "GOFLAGS=-mod=mod", "GOPROXY=off", "GOSUMDB=off", "GOTOOLCHAIN=local")
	out, err := cmd.CombinedOutput()
	text := string(out)
	if err == nil {
		return false, "replay test passed (the real code behaves correctly on this input)\n" + text
	}
	if strings.Contains(text, "--- FAIL: "+rs.TestName) || strings.Contains(text, "panic:") {
		return true, text
	}
	return false, "replay test did not run to a verdict\n" + text
}

func (r *CheckRun) tryReplay(a *AggObl, replayPath string) bool {
	if a.failing != nil && a.failing.Replay == nil {
		a.failing.Replay = r.modelReplay(a, nil)
		if a.failing.Replay != nil {
			if ok, _ := r.runReplay(a.failing.Replay, replayPath+".first"); !ok {
				// the solver's (possibly partial) model does not fail on the real code: look for a candidate
				// input with the quantified hypotheses dropped
				if vals := r.candidateValues(a); vals != nil {
					if rs := r.modelReplay(a, vals); rs != nil {
						a.failing.Replay = rs
						a.failing.Model += fmt.Sprintf("\n--- candidate input (quantified hypotheses dropped): %v ---\n", vals)
					}
				}
			}
		}
	}
	if a.failing == nil || a.failing.Replay == nil {
		return false
	}
	ok, out := r.runReplay(a.failing.Replay, replayPath)
	f, err := os.OpenFile(replayPath, os.O_APPEND|os.O_WRONLY, 0o644)
	if err == nil {
		fmt.Fprintf(f, "\n--- replay against the real code (go test -overlay, package %s, test %s) ---\ninput: %s\nconfirmed: %v\n%s\nreplay test: %s.replay_test.go\nrerun: cd <package dir> && go test -overlay %s.overlay.json -vet=off -run '^%s$' .\n",
			a.failing.Replay.PkgPath, a.failing.Replay.TestName, a.failing.Replay.What, ok, trunc2(out, 4000), replayPath, replayPath, a.failing.Replay.TestName)
		f.Close()
	}
	return ok
}

// modelReplay turns the solver's counterexample of a refuted safety obligation into a call of the real
// function, when every parameter is an integer or a boolean and the function has no receiver: the model's
// parameter values are the failing input, the oracle is "the call panics".
func (r *CheckRun) modelReplay(a *AggObl, values map[string]string) *ReplaySpec {
	o := a.failing
	// safety obligations (oracle: the call panics) and erroronly obligations (oracle: the call returns an error)
	errOnly := o != nil && o.Clause != nil && o.Clause.Kind == "erroronly"
	if o == nil || (o.Kind != "safety" && !errOnly) || a.failVC == nil || a.failVC.fn == nil {
		return nil
	}
	fn := a.failVC.fn
	if fn.Signature.Recv() != nil || fn.Pkg == nil || fn.Signature.Params().Len() == 0 || fn.Signature.Variadic() {
		return nil
	}
	text := strings.Join(strings.Fields(o.Model), " ")
	var args []string
	for i := 0; i < fn.Signature.Params().Len(); i++ {
		p := fn.Signature.Params().At(i)
		b, ok := types.Unalias(p.Type()).Underlying().(*types.Basic)
		if !ok || b.Info()&(types.IsInteger|types.IsBoolean|types.IsString) == 0 {
			return nil
		}
		if values != nil {
			v, have := values[p.Name()]
			if !have {
				return nil
			}
			if _, isNamed := p.Type().(*types.Named); isNamed {
				v = types.TypeString(p.Type(), func(pk *types.Package) string { return "" }) + "(" + v + ")"
			}
			args = append(args, v)
			continue
		}
		if b.Info()&types.IsString != 0 {
			args = append(args, `""`)
			continue
		}
		re := regexp.MustCompile(`\(define-fun \|?p_` + regexp.QuoteMeta(p.Name()) + `!\d+\|? \(\) (?:Int|Bool) (\(- \d+\)|[^() ]+)\)`)
		m := re.FindStringSubmatch(text)
		val := ""
		if m != nil {
			val = strings.ReplaceAll(strings.Trim(m[1], "()"), "- ", "-")
		} else if b.Info()&types.IsBoolean != 0 {
			val = "false"
		} else {
			val = "0" // the model leaves it unconstrained
		}
		if _, isNamed := p.Type().(*types.Named); isNamed {
			val = types.TypeString(p.Type(), func(pk *types.Package) string { return "" }) + "(" + val + ")"
		}
		args = append(args, val)
	}
	call := fn.Name() + "(" + strings.Join(args, ", ") + ")"
	if errOnly {
		nres := fn.Signature.Results().Len()
		if nres == 0 || !isErrorType(fn.Signature.Results().At(nres-1).Type()) {
			return nil
		}
		lhs := strings.Repeat("_, ", nres-1) + "err"
		src := fmt.Sprintf(`package %s

import "testing"

// generated by gocv from the solver's counterexample of %s (%s)
func TestGocvReplayModel(t *testing.T) {
	%s := %s
	if err != nil {
		t.Fatalf("%s is refused: %%v", err)
	}
}
`, fn.Pkg.Pkg.Name(), shortKey(a.Func), o.Detail, lhs, call, strings.ReplaceAll(call, `"`, `'`))
		return &ReplaySpec{PkgPath: fn.Pkg.Pkg.Path(), TestName: "TestGocvReplayModel", Source: src, What: call + " returns an error"}
	}
	src := fmt.Sprintf(`package %s

import "testing"

// generated by gocv from the solver's counterexample of %s (%s)
func TestGocvReplayModel(t *testing.T) {
	defer func() {
		if r := recover(); r != nil {
			t.Fatalf("%s panics: %%v", r)
		}
	}()
	%s
}
`, fn.Pkg.Pkg.Name(), shortKey(a.Func), o.Detail, strings.ReplaceAll(call, `"`, `'`), callStmt(fn.Signature.Results().Len(), call))
	return &ReplaySpec{PkgPath: fn.Pkg.Pkg.Path(), TestName: "TestGocvReplayModel", Source: src, What: call}
}

func callStmt(nres int, call string) string {
	if nres == 0 {
		return call
	}
	return strings.TrimSuffix(strings.Repeat("_, ", nres), ", ") + " = " + call
}

// dropQuantifiers replaces every (forall ...) / (exists ...) subterm by true. Used only to obtain candidate
// inputs from an obligation the solvers cannot refute outright (quantified hypotheses make them answer
// "unknown"): hypotheses get weaker, so the models are candidates, and only a replay on the real code counts.
func dropQuantifiers(script string) string {
	var b strings.Builder
	for i := 0; i < len(script); {
		if strings.HasPrefix(script[i:], "(forall ") || strings.HasPrefix(script[i:], "(exists ") {
			depth := 0
			j := i
			for ; j < len(script); j++ {
				if script[j] == '(' {
					depth++
				} else if script[j] == ')' {
					depth--
					if depth == 0 {
						break
					}
				}
			}
			b.WriteString("true")
			i = j + 1
			continue
		}
		b.WriteByte(script[i])
		i++
	}
	return b.String()
}

// candidateValues asks z3 for a model of the failing obligation with quantified hypotheses dropped and returns
// Go literals for the function's parameters (integers, booleans; strings as a string of the model's length).
func (r *CheckRun) candidateValues(a *AggObl) map[string]string {
	if a.failing == nil || a.failVC == nil || a.failVC.fn == nil {
		return nil
	}
	vc := a.failVC
	script := dropQuantifiers(vc.Standalone(a.failing, false))
	var names []string
	for i := 0; i < vc.fn.Signature.Params().Len(); i++ {
		p := vc.fn.Signature.Params().At(i)
		tv, ok := vc.params[p.Name()]
		if !ok {
			return nil
		}
		b, isB := types.Unalias(p.Type()).Underlying().(*types.Basic)
		if !isB {
			return nil
		}
		if b.Info()&types.IsString != 0 {
			script += fmt.Sprintf("(get-value ((slen %s)))\n", tv.T)
		} else {
			script += fmt.Sprintf("(get-value (%s))\n", tv.T)
		}
		names = append(names, p.Name())
	}
	f := filepath.Join(r.Work, "candidate.smt2")
	if os.WriteFile(f, []byte(script), 0o644) != nil {
		return nil
	}
	res := runSolver(context.Background(), solvers[0], f, 5000, false, 9*time.Second)
	if res.err != nil || len(res.lines) == 0 || res.lines[0] != "sat" {
		return nil
	}
	// one "((term value))" line per parameter after the verdict
	var vlines []string
	for _, l := range strings.Split(res.raw, "\n") {
		if l = strings.TrimSpace(l); strings.HasPrefix(l, "((") {
			vlines = append(vlines, l)
		}
	}
	if len(vlines) != len(names) {
		return nil
	}
	valRe := regexp.MustCompile(`\(\(.* (\(- \d+\)|[^() ]+)\)\)\s*$`)
	out := map[string]string{}
	for i, n := range names {
		m := valRe.FindStringSubmatch(vlines[i])
		if m == nil {
			return nil
		}
		v := strings.ReplaceAll(strings.Trim(m[1], "()"), "- ", "-")
		p := vc.fn.Signature.Params().At(i)
		if b := types.Unalias(p.Type()).Underlying().(*types.Basic); b.Info()&types.IsString != 0 {
			var k int
			fmt.Sscan(v, &k)
			if k < 0 || k > 1<<16 {
				return nil
			}
			v = fmt.Sprintf("%q", strings.Repeat("a", k))
		}
		out[n] = v
	}
	return out
}
