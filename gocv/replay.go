package main

import (
	"context"
	"encoding/json"
	"fmt"
	"os"
	"os/exec"
	"path/filepath"
	"strings"
	"time"
)

// A replay is a Go test injected into a package of /repo with `go test -overlay` (nothing is written to the
// repository). The test encodes the failing input of an obligation and fails iff the real code misbehaves on it.
type ReplaySpec struct {
	PkgPath  string // import path of the package the test lives in
	TestName string
	Source   string // complete test file
	What     string // one line: the failing input
}

// runReplay returns (confirmed, output): confirmed iff the test ran and failed.
func (r *CheckRun) runReplay(rs *ReplaySpec, replayPath string) (bool, string) {
	var dir string
	for _, p := range r.P.Pkgs {
		if p.PkgPath == rs.PkgPath && len(p.GoFiles) > 0 {
			dir = filepath.Dir(p.GoFiles[0])
		}
	}
	if dir == "" {
		return false, "package " + rs.PkgPath + " not loaded"
	}
	src := replayPath + ".replay_test.go"
	if err := os.WriteFile(src, []byte(rs.Source), 0o644); err != nil {
		return false, err.Error()
	}
	ov := replayPath + ".overlay.json"
	b, _ := json.Marshal(map[string]map[string]string{"Replace": {filepath.Join(dir, "zz_gocv_replay_test.go"): src}})
	os.WriteFile(ov, b, 0o644)
	ctx, cancel := context.WithTimeout(context.Background(), 180*time.Second)
	defer cancel()
	cmd := exec.CommandContext(ctx, "go", "test", "-overlay", ov, "-vet=off", "-count=1", "-timeout", "120s", "-run", "^"+rs.TestName+"$", ".")
	cmd.Dir = dir
	cmd.Env = append(os.Environ(), "GOFLAGS=-mod=mod", "GOPROXY=off", "GOSUMDB=off", "GOTOOLCHAIN=local")
	out, err := cmd.CombinedOutput()
	text := string(out)
	if err == nil {
		return false, "replay test passed (the real code behaves correctly on this input)\n" + text
	}
	if strings.Contains(text, "--- FAIL: "+rs.TestName) || strings.Contains(text, "panic:") {
		return true, text
	}
	return false, "replay test did not run to a verdict\n" + text
}

func (r *CheckRun) tryReplay(a *AggObl, replayPath string) bool {
	if a.failing == nil || a.failing.Replay == nil {
		return false
	}
	ok, out := r.runReplay(a.failing.Replay, replayPath)
	f, err := os.OpenFile(replayPath, os.O_APPEND|os.O_WRONLY, 0o644)
	if err == nil {
		fmt.Fprintf(f, "\n--- replay against the real code (go test -overlay, package %s, test %s) ---\ninput: %s\nconfirmed: %v\n%s\nreplay test: %s.replay_test.go\nrerun: cd <package dir> && go test -overlay %s.overlay.json -vet=off -run '^%s$' .\n",
			a.failing.Replay.PkgPath, a.failing.Replay.TestName, a.failing.Replay.What, ok, trunc2(out, 4000), replayPath, replayPath, a.failing.Replay.TestName)
		f.Close()
	}
	return ok
}
