package main

import (
	"fmt"
	"go/ast"
	"go/parser"
	"go/token"
	"go/types"
	"os"
	"path/filepath"
	"sort"
	"strings"
	"sync"

	"golang.org/x/tools/go/packages"
	"golang.org/x/tools/go/ssa"
	"golang.org/x/tools/go/ssa/ssautil"
)

const modulePath = "github.com/lidofinance/dc4bc"

type Prog struct {
	Fset       *token.FileSet
	Pkgs       []*packages.Package
	SSA        *ssa.Program
	Funcs      map[string]*ssa.Function // by key (types.Func.FullName style)
	PkgByPath  map[string]*types.Package
	PkgByName  map[string][]*types.Package
	Spec       *Spec
	RepoDir    string
	modsets    map[*ssa.Function]map[string]bool
	implCache  map[string][]implTarget
	allTypes   []types.Type
	fvAll      map[*ssa.Function]bool
	fvBound    map[*ssa.Function]bool
	fnIDs      map[string]int
	mu, mu2    sync.Mutex
	tblOnce    sync.Once
	cglobals   map[string]*constGlobal
	privAllocs map[*ssa.Function][]*ssa.Alloc
	VerifDir   string
	tbl        *Tables
	tblErr     error
}

func funcKey(fn *ssa.Function) string {
	if fn.Object() != nil {
		if f, ok := fn.Object().(*types.Func); ok {
			return f.FullName()
		}
	}
	return fn.String()
}

func LoadProg(repoDir string, patterns []string, specDirs []string) (*Prog, error) {
	fset := token.NewFileSet()
	cfg := &packages.Config{
		Mode:       packages.NeedName | packages.NeedFiles | packages.NeedCompiledGoFiles | packages.NeedImports | packages.NeedDeps | packages.NeedTypes | packages.NeedSyntax | packages.NeedTypesInfo | packages.NeedTypesSizes | packages.NeedModule,
		Dir:        repoDir,
		Fset:       fset,
		BuildFlags: []string{"-tags=verif"},
		Env:        append(os.Environ(), "GOFLAGS=-mod=mod", "GOPROXY=off", "GOSUMDB=off", "GOTOOLCHAIN=local"),
		ParseFile: func(fset *token.FileSet, filename string, src []byte) (*ast.File, error) {
			return parser.ParseFile(fset, filename, src, parser.ParseComments|parser.SkipObjectResolution)
		},
	}
	pkgs, err := packages.Load(cfg, patterns...)
	if err != nil {
		return nil, err
	}
	var errs []string
	packages.Visit(pkgs, nil, func(p *packages.Package) {
		if strings.HasPrefix(p.PkgPath, modulePath) {
			for _, e := range p.Errors {
				errs = append(errs, e.Error())
			}
		}
	})
	if len(errs) > 0 {
		return nil, fmt.Errorf("package load errors:\n%s", strings.Join(errs, "\n"))
	}
	prog, _ := ssautil.Packages(pkgs, ssa.GlobalDebug)
	// create (body-less) packages for all dependencies so that external functions resolve
	packages.Visit(pkgs, nil, func(p *packages.Package) {
		if p.Types != nil && prog.Package(p.Types) == nil {
			prog.CreatePackage(p.Types, nil, nil, true)
		}
	})
	for _, p := range pkgs {
		if sp := prog.Package(p.Types); sp != nil {
			sp.Build()
		}
	}
	P := &Prog{Fset: fset, Pkgs: pkgs, SSA: prog, Funcs: map[string]*ssa.Function{}, PkgByPath: map[string]*types.Package{},
		PkgByName: map[string][]*types.Package{}, Spec: NewSpec(), RepoDir: repoDir, implCache: map[string][]implTarget{}}
	packages.Visit(pkgs, nil, func(p *packages.Package) {
		if p.Types != nil {
			P.PkgByPath[p.PkgPath] = p.Types
			P.PkgByName[p.Types.Name()] = append(P.PkgByName[p.Types.Name()], p.Types)
		}
	})
	for fn := range ssautil.AllFunctions(prog) {
		if fn.Synthetic != "" {
			continue
		}
		P.Funcs[funcKey(fn)] = fn
	}
	// contract files: every *_verif.go / contracts_verif.go in module packages
	for _, p := range pkgs {
		for _, f := range p.CompiledGoFiles {
			if strings.HasSuffix(f, "_verif.go") {
				if err := P.Spec.ParseSpecFile(f, p.PkgPath); err != nil {
					return nil, err
				}
			}
		}
	}
	for _, d := range specDirs {
		files, _ := filepath.Glob(filepath.Join(d, "*.gocv"))
		sort.Strings(files)
		for _, f := range files {
			if err := P.Spec.ParseSpecFile(f, ""); err != nil {
				return nil, err
			}
		}
	}
	return P, nil
}

// lookupPkg resolves a package qualifier used in a contract of package pkgPath.
func (P *Prog) lookupPkg(name, pkgPath string) *types.Package {
	if imp, ok := P.Spec.Imports[pkgPath]; ok {
		if path, ok := imp[name]; ok {
			return P.PkgByPath[path]
		}
	}
	if imp, ok := P.Spec.Imports[""]; ok {
		if path, ok := imp[name]; ok {
			return P.PkgByPath[path]
		}
	}
	if p := P.PkgByPath[pkgPath]; p != nil {
		for _, ip := range p.Imports() {
			if ip.Name() == name {
				return ip
			}
		}
	}
	// unique by name, preferring module packages
	var cands []*types.Package
	for _, p := range P.PkgByName[name] {
		if strings.HasPrefix(p.Path(), modulePath) {
			cands = append(cands, p)
		}
	}
	if len(cands) == 1 {
		return cands[0]
	}
	if len(cands) == 0 && len(P.PkgByName[name]) >= 1 {
		// prefer the shortest path (stdlib) for determinism
		best := P.PkgByName[name][0]
		for _, p := range P.PkgByName[name] {
			if len(p.Path()) < len(best.Path()) {
				best = p
			}
		}
		return best
	}
	return nil
}

// resolveType parses Go type text in the scope of package pkgPath.
func (P *Prog) resolveType(text, pkgPath string) (types.Type, error) {
	e, err := parser.ParseExpr(text)
	if err != nil {
		return nil, fmt.Errorf("bad type %q: %v", text, err)
	}
	return P.typeFromAST(e, pkgPath)
}

func (P *Prog) typeFromAST(e ast.Expr, pkgPath string) (types.Type, error) {
	switch e := e.(type) {
	case *ast.Ident:
		if e.Name == "bytesvalue" {
			return bytesT, nil
		}
		if obj := types.Universe.Lookup(e.Name); obj != nil {
			if tn, ok := obj.(*types.TypeName); ok {
				return tn.Type(), nil
			}
		}
		if p := P.PkgByPath[pkgPath]; p != nil {
			if obj := p.Scope().Lookup(e.Name); obj != nil {
				if tn, ok := obj.(*types.TypeName); ok {
					return tn.Type(), nil
				}
			}
		}
		return nil, fmt.Errorf("unknown type %s in %s", e.Name, pkgPath)
	case *ast.SelectorExpr:
		id, ok := e.X.(*ast.Ident)
		if !ok {
			return nil, fmt.Errorf("bad qualified type")
		}
		p := P.lookupPkg(id.Name, pkgPath)
		if p == nil {
			return nil, fmt.Errorf("unknown package %s", id.Name)
		}
		obj := p.Scope().Lookup(e.Sel.Name)
		if tn, ok := obj.(*types.TypeName); ok {
			return tn.Type(), nil
		}
		return nil, fmt.Errorf("unknown type %s.%s", id.Name, e.Sel.Name)
	case *ast.StarExpr:
		t, err := P.typeFromAST(e.X, pkgPath)
		if err != nil {
			return nil, err
		}
		return types.NewPointer(t), nil
	case *ast.ArrayType:
		t, err := P.typeFromAST(e.Elt, pkgPath)
		if err != nil {
			return nil, err
		}
		if e.Len == nil {
			return types.NewSlice(t), nil
		}
		if bl, ok := e.Len.(*ast.BasicLit); ok {
			var n int64
			fmt.Sscan(bl.Value, &n)
			return types.NewArray(t, n), nil
		}
		return nil, fmt.Errorf("unsupported array length")
	case *ast.MapType:
		k, err := P.typeFromAST(e.Key, pkgPath)
		if err != nil {
			return nil, err
		}
		v, err := P.typeFromAST(e.Value, pkgPath)
		if err != nil {
			return nil, err
		}
		return types.NewMap(k, v), nil
	case *ast.IndexExpr:
		if id, ok := e.X.(*ast.Ident); ok && id.Name == "set" {
			k, err := P.typeFromAST(e.Index, pkgPath)
			if err != nil {
				return nil, err
			}
			return &RawMap{Key: k, Elem: types.Typ[types.Bool]}, nil
		}
		return nil, fmt.Errorf("unsupported generic type")
	case *ast.IndexListExpr:
		if id, ok := e.X.(*ast.Ident); ok && id.Name == "mmap" && len(e.Indices) == 2 {
			k, err := P.typeFromAST(e.Indices[0], pkgPath)
			if err != nil {
				return nil, err
			}
			v, err := P.typeFromAST(e.Indices[1], pkgPath)
			if err != nil {
				return nil, err
			}
			return &RawMap{Key: k, Elem: v}, nil
		}
		return nil, fmt.Errorf("unsupported generic type")
	case *ast.InterfaceType:
		return types.NewInterfaceType(nil, nil), nil
	case *ast.ParenExpr:
		return P.typeFromAST(e.X, pkgPath)
	}
	return nil, fmt.Errorf("unsupported type syntax %T", e)
}

func inModule(p *types.Package) bool {
	return p != nil && strings.HasPrefix(p.Path(), modulePath)
}
