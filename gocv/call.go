package main

import (
	"fmt"
	"go/types"
	"sort"
	"strings"

	"golang.org/x/tools/go/ssa"
)

var noopCallees = map[string]bool{
	"(*sync.Mutex).Lock": true, "(*sync.Mutex).Unlock": true, "(*sync.RWMutex).Lock": true, "(*sync.RWMutex).Unlock": true,
	"(*sync.RWMutex).RLock": true, "(*sync.RWMutex).RUnlock": true, "log.Println": true, "log.Printf": true, "log.Print": true,
	"fmt.Println": true, "fmt.Printf": true, "fmt.Print": true,
}

func calleeKey(com *ssa.CallCommon) string {
	if com.IsInvoke() {
		return com.Method.FullName()
	}
	if fn := com.StaticCallee(); fn != nil {
		return funcKey(fn)
	}
	if b, ok := com.Value.(*ssa.Builtin); ok {
		return "builtin." + b.Name()
	}
	return ""
}

func (vc *VC) isNoopCall(com *ssa.CallCommon) bool {
	return noopCallees[calleeKey(com)]
}

func (vc *VC) call(ins ssa.Instruction, com *ssa.CallCommon) []string {
	var args []string
	for _, a := range com.Args {
		args = append(args, vc.val(a))
	}
	recv := ""
	if com.IsInvoke() {
		recv = vc.val(com.Value)
	}
	return vc.callWith(com, args, recv, ins)
}

func (vc *VC) freshResults(sig *types.Signature, name string) []string {
	var res []string
	for i := 0; i < sig.Results().Len(); i++ {
		t := sig.Results().At(i).Type()
		r := vc.declare(name+"_r", vc.pre.sortOf(t))
		vc.assumeRange(r, t)
		res = append(res, r)
	}
	return res
}

func (vc *VC) callWith(com *ssa.CallCommon, args []string, recv string, ins ssa.Instruction) []string {
	key := calleeKey(com)
	sig := com.Signature()
	if noopCallees[key] {
		return vc.freshResults(sig, "noop")
	}
	if b, ok := com.Value.(*ssa.Builtin); ok && !com.IsInvoke() {
		return vc.builtin(b, com, args, ins)
	}
	// call-site assertions of the caller's contract
	if vc.contract != nil {
		for _, ac := range vc.contract.AssertCall {
			if !vc.clauseOn(ac) || !calleeMatches(key, ac.Callee) {
				continue
			}
			env := vc.callSiteEnv(com, args, recv)
			name := "[" + strings.Join(ac.Labels, ",") + "]"
			if len(ac.Labels) == 0 {
				name = fmt.Sprintf("assert@call:%s@%d", ac.Callee, ac.Line)
			}
			vc.oblige(name, "assert", fmt.Sprintf("before call to %s at %s: %s", key, vc.pos(), ac.Text), vc.evalGoal(env, ac.E, ac), ac)
		}
	}
	if com.IsInvoke() {
		vc.safety("method call on nil interface: "+key, fmt.Sprintf("(not (= %s inil))", recv))
	}
	if key == "" {
		// call of a function value
		vc.warn("call of function value %s: all heaps havocked", com.Value.Name())
		fv := vc.val(com.Value)
		vc.safety("call of nil function value", fmt.Sprintf("(not (= %s 0))", fv))
		vc.havocAll()
		return vc.freshResults(sig, "fv")
	}
	if c, ok := vc.P.Spec.Contracts[key]; ok {
		return vc.applyContract(c, com, key, args, recv)
	}
	fn := com.StaticCallee()
	if fn != nil && len(fn.Blocks) > 0 {
		// in-module function without a contract: havoc its inferred modset
		vc.uncontracted[key] = true
		for _, h := range sortedKeys(vc.P.modsetOf(fn)) {
			vc.havocH(vc.st, h)
		}
		vc.havocH(vc.st, "$next")
		return vc.freshResults(sig, "uc")
	}
	if com.IsInvoke() {
		// interface method without contract: union of implementations' modsets
		vc.uncontracted[key] = true
		impls := vc.P.implementations(com.Method)
		if len(impls) == 0 || !inModule(com.Method.Pkg()) {
			vc.defaultExternal(com, key, args, recv)
		} else {
			ms := map[string]bool{}
			for _, f := range impls {
				for h := range vc.P.modsetOf(f) {
					ms[h] = true
				}
			}
			for _, h := range sortedKeys(ms) {
				vc.havocH(vc.st, h)
			}
		}
		vc.havocH(vc.st, "$next")
		return vc.freshResults(sig, "im")
	}
	vc.defaultExternal(com, key, args, recv)
	return vc.freshResults(sig, "ext")
}

func calleeMatches(key, pat string) bool {
	if pat == "*" {
		return true
	}
	if key == pat || strings.HasSuffix(key, "."+pat) || strings.HasSuffix(key, ")."+pat) || strings.HasSuffix(key, "/"+pat) {
		return true
	}
	return false
}

func sortedKeys(m map[string]bool) []string {
	out := make([]string, 0, len(m))
	for k := range m {
		out = append(out, k)
	}
	sort.Strings(out)
	return out
}

func (vc *VC) havocAll() {
	for _, h := range sortedKeys(vc.P.allWrittenHeaps()) {
		vc.havocH(vc.st, h)
	}
	vc.havocH(vc.st, "$next")
}

// defaultExternal applies the default summary of an external callee: it terminates,
// writes only memory reachable from its pointer arguments (and slice arguments for known
// slice writers), and returns arbitrary well-typed values.
func (vc *VC) defaultExternal(com *ssa.CallCommon, key string, args []string, recv string) {
	vc.defaultExt[key] = true
	for _, h := range vc.P.externalMods(com, key) {
		vc.havocH(vc.st, h)
	}
	vc.havocH(vc.st, "$next")
}

// ---------- builtins ----------

func (vc *VC) builtin(b *ssa.Builtin, com *ssa.CallCommon, args []string, ins ssa.Instruction) []string {
	name := "bi"
	if v, ok := ins.(ssa.Value); ok {
		name = v.Name()
	}
	switch b.Name() {
	case "len":
		t := types.Unalias(com.Args[0].Type()).Underlying()
		switch tt := t.(type) {
		case *types.Slice:
			return []string{vc.define(name, "Int", fmt.Sprintf("(s_len %s)", args[0]))}
		case *types.Basic:
			return []string{vc.define(name, "Int", fmt.Sprintf("(slen %s)", args[0]))}
		case *types.Map:
			r := vc.define(name, "Int", vc.mapLen(tt, args[0], vc.st))
			vc.assume(fmt.Sprintf("(>= %s 0)", r))
			return []string{r}
		case *types.Array:
			return []string{fmt.Sprintf("%d", tt.Len())}
		case *types.Pointer:
			if at, ok := types.Unalias(tt.Elem()).Underlying().(*types.Array); ok {
				return []string{fmt.Sprintf("%d", at.Len())}
			}
		}
		r := vc.declare(name, "Int")
		vc.assume(fmt.Sprintf("(>= %s 0)", r))
		return []string{r}
	case "cap":
		r := vc.declare(name, "Int")
		if _, ok := types.Unalias(com.Args[0].Type()).Underlying().(*types.Slice); ok {
			vc.assume(fmt.Sprintf("(>= %s (s_len %s))", r, args[0]))
		} else {
			vc.assume(fmt.Sprintf("(>= %s 0)", r))
		}
		return []string{r}
	case "append":
		st, ok := types.Unalias(com.Args[0].Type()).Underlying().(*types.Slice)
		if !ok {
			vc.unsup("append on %s", com.Args[0].Type())
			return []string{vc.declare(name, "Slice")}
		}
		return []string{vc.appendSlices(name, st.Elem(), args[0], com.Args[1], args[1])}
	case "copy":
		dt, ok := types.Unalias(com.Args[0].Type()).Underlying().(*types.Slice)
		if !ok {
			vc.unsup("copy into %s", com.Args[0].Type())
			return []string{vc.declare(name, "Int")}
		}
		return []string{vc.copySlices(name, dt.Elem(), args[0], com.Args[1], args[1])}
	case "delete":
		vc.mapUpdate(com.Args[0], args[1], "", true)
		return nil
	case "panic":
		if vc.contract == nil || !vc.contract.MayPanic {
			vc.safety("explicit panic reachable", "false")
		}
		return nil
	case "print", "println":
		return nil
	case "min", "max":
		op := "<="
		if b.Name() == "max" {
			op = ">="
		}
		cur := args[0]
		for _, a := range args[1:] {
			cur = fmt.Sprintf("(ite (%s %s %s) %s %s)", op, cur, a, cur, a)
		}
		return []string{vc.define(name, vc.pre.sortOf(com.Args[0].Type()), cur)}
	case "recover":
		return []string{"inil"}
	}
	vc.unsup("builtin %s", b.Name())
	return vc.freshResults(com.Signature(), "bi")
}

func (vc *VC) mapLen(mt *types.Map, m string, st *State) string {
	dn, ds, _, _ := vc.mapHeaps(mt)
	ksort := vc.pre.sortOf(mt.Key())
	card := vc.pre.cardFn("(Array " + ksort + " Bool)")
	return fmt.Sprintf("(ite (= %s 0) 0 (%s (select %s %s)))", m, card, vc.getH(st, dn, ds), m)
}

// appendSlices models append(a, b...) as allocation of a fresh backing array holding a ++ b.
func (vc *VC) appendSlices(name string, elem types.Type, a string, bv ssa.Value, b string) string {
	es := vc.pre.sortOf(elem)
	n, s := vc.arrHeap(elem)
	h := vc.getH(vc.st, n, s)
	ref := vc.freshRef()
	arr := vc.declare(name+"_arr", "(Array Int "+es+")")
	var blen, bget, bidx string
	isStr := vc.pre.sortOf(bv.Type()) == "Str"
	if isStr { // append([]byte, string...)
		vc.pre.declFun("sbytes", "(Str) (Array Int Int)")
		blen = fmt.Sprintf("(slen %s)", b)
		bget = fmt.Sprintf("(select (sbytes %s) (- k (s_len %s)))", b, a)
		bidx = "true"
	} else {
		blen = fmt.Sprintf("(s_len %s)", b)
		bget = fmt.Sprintf("(select (select %s (s_ref %s)) (+ (s_off %s) (- k (s_len %s))))", h, b, b, a)
		bidx = fmt.Sprintf("(= (idx %s (- k (s_len %s))) (+ (s_off %s) (- k (s_len %s))))", b, a, b, a)
	}
	res := vc.define(name, "Slice", fmt.Sprintf("(mk_slice %s 0 (+ (s_len %s) %s))", ref, a, blen))
	// content of the new array, and the definition of idx on the slices involved (trigger bridge)
	vc.assume(fmt.Sprintf("(forall ((k Int)) (! (and (= (idx %s k) k) (= (idx %s k) (+ (s_off %s) k)) %s (=> (and (<= 0 k) (< k (s_len %s))) (= (select %s k) (select (select %s (s_ref %s)) (+ (s_off %s) k)))) (=> (and (<= (s_len %s) k) (< k (+ (s_len %s) %s))) (= (select %s k) %s))) :pattern ((idx %s k)) :pattern ((idx %s k)) :pattern ((select %s k))))",
		res, a, a, bidx, a, arr, h, a, a, a, a, blen, arr, bget, res, a, arr))
	if !isStr {
		// single-element append onto a slice that starts at offset 0: closed form, no quantifier needed
		vc.assume(fmt.Sprintf("(=> (and (= (s_off %s) 0) (= (s_len %s) 1)) (= %s (store (select %s (s_ref %s)) (s_len %s) (select (select %s (s_ref %s)) (s_off %s)))))", a, b, arr, h, a, a, h, b, b))
		// ground witness for the appended element (so that existential goals about it can be instantiated)
		vc.assume(fmt.Sprintf("(=> (= (s_len %s) 1) (and (= (idx %s (s_len %s)) (s_len %s)) (= (select %s (s_len %s)) (select (select %s (s_ref %s)) (s_off %s)))))", b, res, a, a, arr, a, h, b, b))
	}
	vc.setH(vc.st, n, s, fmt.Sprintf("(store %s %s %s)", h, ref, arr))
	return res
}

func (vc *VC) copySlices(name string, elem types.Type, d string, sv ssa.Value, s string) string {
	es := vc.pre.sortOf(elem)
	hn, hs := vc.arrHeap(elem)
	h := vc.getH(vc.st, hn, hs)
	var slen, sget string
	if vc.pre.sortOf(sv.Type()) == "Str" {
		vc.pre.declFun("sbytes", "(Str) (Array Int Int)")
		slen = fmt.Sprintf("(slen %s)", s)
		sget = fmt.Sprintf("(select (sbytes %s) (- k (s_off %s)))", s, d)
	} else {
		slen = fmt.Sprintf("(s_len %s)", s)
		sget = fmt.Sprintf("(select (select %s (s_ref %s)) (+ (s_off %s) (- k (s_off %s))))", h, s, s, d)
	}
	n := vc.define(name, "Int", fmt.Sprintf("(ite (< (s_len %s) %s) (s_len %s) %s)", d, slen, d, slen))
	arr := vc.declare(name+"_arr", "(Array Int "+es+")")
	old := fmt.Sprintf("(select %s (s_ref %s))", h, d)
	vc.assume(fmt.Sprintf("(forall ((k Int)) (! (ite (and (<= (s_off %s) k) (< k (+ (s_off %s) %s))) (= (select %s k) %s) (= (select %s k) (select %s k))) :pattern ((select %s k))))",
		d, d, n, arr, sget, arr, old, arr))
	vc.setH(vc.st, hn, hs, fmt.Sprintf("(ite (= %s 0) %s (store %s (s_ref %s) %s))", n, h, h, d, arr))
	// a copy that fills the whole destination from an equally long source transfers the abstract content
	if es == "Int" && heapTypeKey(elem) == "uint8" {
		var srcContent string
		if vc.pre.sortOf(sv.Type()) == "Str" {
			srcContent = fmt.Sprintf("(s2c %s)", s)
		} else {
			srcContent = fmt.Sprintf("(bcontent (select %s (s_ref %s)) (s_off %s) (s_len %s))", h, s, s, s)
		}
		vc.assume(fmt.Sprintf("(=> (and (= (s_len %s) %s) (not (= (s_ref %s) %s))) (= %s %s))", d, slen, d, refOfSrc(s, vc.pre.sortOf(sv.Type())), vc.contentOf(d, vc.st), srcContent))
	}
	return n
}

func refOfSrc(s, sort string) string {
	if sort == "Str" {
		return "(- 1)"
	}
	return "(s_ref " + s + ")"
}

// ---------- contracts at call sites ----------

func (vc *VC) applyContract(c *Contract, com *ssa.CallCommon, key string, args []string, recv string) []string {
	if c.Assumed {
		vc.assumedUsed[key] = true
	}
	sig := com.Signature()
	pre := vc.st.clone()
	env := vc.callSiteEnv(com, args, recv)
	env.pkgPath = c.PkgPath
	if len(c.Params) > 0 {
		// explicit parameter names override
		all := append([]string{}, args...)
		tys := []types.Type{}
		if com.IsInvoke() {
			all = append([]string{recv}, args...)
			tys = append(tys, com.Value.Type())
		}
		for _, a := range com.Args {
			tys = append(tys, a.Type())
		}
		for i, n := range c.Params {
			if i < len(all) {
				env.vars[n] = TV{T: all[i], Ty: tys[i]}
			}
		}
	}
	for _, r := range c.Requires {
		name := "pre:" + shortKey(key)
		if len(r.Labels) > 0 {
			name = "[" + strings.Join(r.Labels, ",") + "]"
		}
		if !vc.clauseOn(r) {
			vc.assume(vc.evalBool(env, r.E, r))
			continue
		}
		goal := vc.evalGoal(env, r.E, r)
		vc.oblige(name, "pre@call", fmt.Sprintf("precondition of %s at %s: %s", key, vc.pos(), r.Text), goal, r)
		vc.assume(goal)
	}
	// havoc
	var mods map[string]bool
	if c.HasMod {
		mods = vc.resolveModifies(c)
	} else if fn := com.StaticCallee(); fn != nil && len(fn.Blocks) > 0 {
		mods = vc.P.modsetOf(fn)
	} else if com.IsInvoke() && inModule(com.Method.Pkg()) {
		mods = map[string]bool{}
		for _, f := range vc.P.implementations(com.Method) {
			for h := range vc.P.modsetOf(f) {
				mods[h] = true
			}
		}
	} else {
		mods = map[string]bool{}
		for _, h := range vc.P.externalMods(com, key) {
			mods[h] = true
		}
	}
	for _, ga := range c.Epilogue {
		mods[ga.Var] = true
	}
	for _, h := range sortedKeys(mods) {
		vc.havocH(vc.st, h)
	}
	vc.havocH(vc.st, "$next")
	res := vc.freshResults(sig, "r")
	post := &Env{vc: vc, pkgPath: c.PkgPath, vars: env.vars, cur: vc.st, old: pre}
	var rtv []TV
	for i, r := range res {
		rtv = append(rtv, TV{T: r, Ty: sig.Results().At(i).Type()})
	}
	vc.bindResults(post, sig, rtv)
	for _, ga := range c.Epilogue {
		vc.ghostAssign(post, ga, vc.st)
	}
	for _, e := range c.Ensures {
		if e.Trusted {
			vc.assumedUsed[key+" (trusted clause "+e.Name()+": "+trunc(e.Text, 100)+")"] = true
		}
		vc.assume(vc.evalBool(post, e.E, e))
	}
	return res
}

func shortKey(key string) string {
	if i := strings.LastIndex(key, "/"); i >= 0 {
		return key[i+1:]
	}
	return key
}

// callSiteEnv binds the callee's parameter names to the actual arguments; the caller's
// own parameters remain visible under their names when not shadowed.
func (vc *VC) callSiteEnv(com *ssa.CallCommon, args []string, recv string) *Env {
	env := &Env{vc: vc, pkgPath: vc.pkgPath(), vars: map[string]TV{}, cur: vc.st, old: vc.entry}
	for k, v := range vc.params {
		env.vars[k] = v
	}
	sig := com.Signature()
	var fsig *types.Signature
	if com.IsInvoke() {
		fsig = com.Method.Type().(*types.Signature)
		env.vars["recv"] = TV{T: recv, Ty: com.Value.Type()}
		env.vars["self"] = TV{T: recv, Ty: com.Value.Type()}
	} else if fn := com.StaticCallee(); fn != nil {
		fsig = fn.Signature
		if fn.Object() != nil {
			if f, ok := fn.Object().(*types.Func); ok {
				fsig = f.Type().(*types.Signature)
			}
		}
	} else {
		fsig = sig
	}
	idx := 0
	if !com.IsInvoke() && fsig.Recv() != nil && len(args) > 0 {
		name := fsig.Recv().Name()
		if name == "" || name == "_" {
			name = "recv"
		}
		tv := TV{T: args[0], Ty: com.Args[0].Type()}
		env.vars[name] = tv
		env.vars["self"] = tv
		idx = 1
	}
	for i := 0; i < fsig.Params().Len() && idx+i < len(args); i++ {
		name := fsig.Params().At(i).Name()
		tv := TV{T: args[idx+i], Ty: com.Args[idx+i].Type()}
		if name != "" && name != "_" {
			env.vars[name] = tv
		}
		env.vars[fmt.Sprintf("arg%d", i)] = tv
	}
	return env
}

func (vc *VC) pkgPath() string {
	if vc.fn.Pkg != nil {
		return vc.fn.Pkg.Pkg.Path()
	}
	return ""
}

func (vc *VC) bindResults(env *Env, sig *types.Signature, res []TV) {
	vars := map[string]TV{}
	for k, v := range env.vars {
		vars[k] = v
	}
	env.vars = vars
	for i, r := range res {
		name := sig.Results().At(i).Name()
		if name != "" && name != "_" {
			env.vars[name] = r
		}
		env.vars[fmt.Sprintf("result%d", i)] = r
		if len(res) == 1 {
			env.vars["result"] = r
		}
		// conventional names for unnamed (T, error) results
		if name == "" || name == "_" {
			if isErrorType(r.Ty) {
				if _, ok := env.vars["err"]; !ok || i == len(res)-1 {
					env.vars["err"] = r
				}
			} else if i == 0 {
				env.vars["result"] = r
			}
		}
	}
}

func isErrorType(t types.Type) bool {
	return t != nil && typeStr(t) == "error"
}
