package main

import (
	"fmt"
	"go/token"
	"go/types"
	"sort"
	"strings"

	"golang.org/x/tools/go/ssa"
)

var noopCallees = map[string]bool{
	"(*sync.Mutex).Lock": true, "(*sync.Mutex).Unlock": true, "(*sync.RWMutex).Lock": true, "(*sync.RWMutex).Unlock": true,
	"(*sync.RWMutex).RLock": true, "(*sync.RWMutex).RUnlock": true, "log.Println": true, "log.Printf": true, "log.Print": true,
	"fmt.Println": true, "fmt.Printf": true, "fmt.Print": true,
}

func calleeKey(com *ssa.CallCommon) string {
	if com.IsInvoke() {
		return com.Method.FullName()
	}
	if fn := com.StaticCallee(); fn != nil {
		return funcKey(fn)
	}
	if b, ok := com.Value.(*ssa.Builtin); ok {
		return "builtin." + b.Name()
	}
	return ""
}

func (vc *VC) isNoopCall(com *ssa.CallCommon) bool {
	return noopCallees[calleeKey(com)]
}

func (vc *VC) call(ins ssa.Instruction, com *ssa.CallCommon) []string {
	var args []string
	for _, a := range com.Args {
		args = append(args, vc.val(a))
	}
	recv := ""
	if com.IsInvoke() {
		recv = vc.val(com.Value)
	}
	return vc.callWith(com, args, recv, ins)
}

func (vc *VC) freshResults(sig *types.Signature, name string) []string {
	var res []string
	for i := 0; i < sig.Results().Len(); i++ {
		t := sig.Results().At(i).Type()
		r := vc.declare(name+"_r", vc.pre.sortOf(t))
		vc.assumeRange(r, t)
		res = append(res, r)
	}
	return res
}

// callDesc describes one (possibly devirtualised) call.
type callDesc struct {
	key      string
	sig      *types.Signature // call signature (results)
	fsig     *types.Signature // declared signature of the callee (parameter / receiver names)
	fn       *ssa.Function    // static callee, if any
	isInvoke bool
	method   *types.Func
	recv     string
	recvType types.Type
	args     []string
	argTypes []types.Type
	com      *ssa.CallCommon // original call (nil for devirtualised candidates)
}

func (vc *VC) descOf(com *ssa.CallCommon, args []string, recv string) *callDesc {
	d := &callDesc{key: calleeKey(com), sig: com.Signature(), com: com, args: args, recv: recv}
	for _, a := range com.Args {
		d.argTypes = append(d.argTypes, a.Type())
	}
	if com.IsInvoke() {
		d.isInvoke = true
		d.method = com.Method
		d.recvType = com.Value.Type()
		d.fsig = com.Method.Type().(*types.Signature)
	} else if fn := com.StaticCallee(); fn != nil {
		d.fn = fn
		d.fsig = declaredSig(fn)
	} else {
		d.fsig = d.sig
	}
	return d
}

func declaredSig(fn *ssa.Function) *types.Signature {
	if fn.Object() != nil {
		if f, ok := fn.Object().(*types.Func); ok {
			return f.Type().(*types.Signature)
		}
	}
	return fn.Signature
}

// staticDesc describes a direct call of fn with the given arguments (receiver first for methods).
func staticDesc(fn *ssa.Function, args []string, argTypes []types.Type) *callDesc {
	return &callDesc{key: funcKey(fn), sig: fn.Signature, fsig: declaredSig(fn), fn: fn, args: args, argTypes: argTypes}
}

func (vc *VC) callWith(com *ssa.CallCommon, args []string, recv string, ins ssa.Instruction) []string {
	key := calleeKey(com)
	sig := com.Signature()
	if noopCallees[key] {
		return vc.freshResults(sig, "noop")
	}
	if b, ok := com.Value.(*ssa.Builtin); ok && !com.IsInvoke() {
		return vc.builtin(b, com, args, ins)
	}
	d := vc.descOf(com, args, recv)
	// call-site assertions of the caller's contract
	if c := vc.r().contract; c != nil && vc.parent == nil {
		for _, ac := range c.AssertCall {
			if !vc.clauseOn(ac) || !calleeMatches(key, ac.Callee) {
				continue
			}
			if ac.Loop > 0 && vc.callSiteOrdinal(ins, ac.Callee) != ac.Loop {
				continue
			}
			env := vc.callSiteEnv(d, true)
			env.local = vc.siteLocals(ins)
			name := "[" + strings.Join(ac.Labels, ",") + "]"
			if len(ac.Labels) == 0 {
				name = fmt.Sprintf("assert@call:%s@%d", ac.Callee, ac.Line)
			}
			vc.oblige(name, "assert", fmt.Sprintf("before call to %s at %s: %s", key, vc.pos(), ac.Text), vc.evalGoal(env, ac.E, ac), ac)
		}
	}
	if com.IsInvoke() {
		vc.safety("method call on nil interface: "+key, fmt.Sprintf("(not (= %s inil))", recv))
	}
	if key == "" {
		return vc.dynamicCall(com, d)
	}
	return vc.dispatch(d)
}

// dispatch applies a call whose callee is known by key: contract, inlining, or a havoc summary.
func (vc *VC) dispatch(d *callDesc) []string {
	key, sig := d.key, d.sig
	if c, ok := vc.P.Spec.Contracts[key]; ok {
		return vc.applyContract(c, d)
	}
	if bs := vc.P.Spec.Behaviors[key]; len(bs) > 0 {
		return vc.applyBehaviors(bs, d)
	}
	if d.fn != nil && len(d.fn.Blocks) > 0 {
		if res, ok := vc.inline(d); ok {
			return res
		}
		// in-module function without a contract that cannot be inlined: havoc its inferred modset
		vc.r().uncontracted[key] = true
		for _, h := range sortedKeys(vc.P.modsetOf(d.fn)) {
			vc.havocCallH(h)
		}
		vc.havocH(vc.st, "$next")
		return vc.freshResults(sig, "uc")
	}
	if d.isInvoke {
		impls := vc.P.implementations(d.method)
		if len(impls) > 0 && inModule(d.method.Pkg()) {
			return vc.invokeCandidates(d, impls)
		}
		vc.r().uncontracted[key] = true
		vc.defaultExternal(d)
		vc.havocH(vc.st, "$next")
		return vc.freshResults(sig, "im")
	}
	if ai, ok := decoderFuncs[key]; ok && d.com != nil && ai < len(d.com.Args) && vc.curInstr != nil {
		if a := zeroLocalTarget(vc.curInstr, d.com.Args[ai]); a != nil {
			vc.decodeInto(a, key)
			return vc.freshResults(sig, "ext")
		}
	}
	vc.defaultExternal(d)
	return vc.freshResults(sig, "ext")
}

// decodeInto is the summary of a decoder filling a zero-valued local variable: the variable itself and
// freshly allocated objects are arbitrary afterwards, every object that existed before is unchanged, and
// every reference stored in the new region is nil or fresh.
func (vc *VC) decodeInto(a *ssa.Alloc, key string) {
	vc.r().defaultExt[key+" (decoder summary: writes only its zero-valued target and fresh objects)"] = true
	ref := vc.val(a)
	el := types.Unalias(a.Type()).Underlying().(*types.Pointer).Elem()
	hs := map[string]types.Type{}
	reachHeapTypes(a.Type(), map[string]bool{}, hs)
	nextOld := vc.getH(vc.st, "$next", "Int")
	_ = el
	// empty maps made for the variable before the call may be filled in place
	exclFresh, orFresh := "", ""
	for _, fv := range decoderFreshMaps(a) {
		if t, ok := vc.vals[fv]; ok {
			exclFresh += fmt.Sprintf(" (not (= r %s))", t)
			orFresh += fmt.Sprintf(" (= (select %%[1]s r) %s)", t)
		}
	}
	var names []string
	for h := range hs {
		names = append(names, h)
	}
	sort.Strings(names)
	type hv struct{ name, old, cur string }
	var done []hv
	for _, h := range names {
		srt := vc.heapSortByName(h)
		if srt == "" {
			continue
		}
		vc.pre.heap(h, srt)
		old := vc.getH(vc.st, h, srt)
		vc.havocCallH(h)
		cur := vc.getH(vc.st, h, srt)
		done = append(done, hv{h, old, cur})
		vc.assume(fmt.Sprintf("(forall ((r Int)) (! (=> (and (< r %s) (not (= r %s))%s) (= (select %s r) (select %s r))) :pattern ((select %s r))))", nextOld, ref, exclFresh, cur, old, cur))
	}
	vc.havocH(vc.st, "$next")
	for _, x := range done {
		t := hs[x.name]
		if t == nil || strings.HasPrefix(x.name, "HM") || strings.HasPrefix(x.name, "HA:") {
			continue // map heaps hold one array per map object: only the frame above is stated
		}
		var f string
		switch types.Unalias(t).Underlying().(type) {
		case *types.Pointer, *types.Map:
			extra := ""
			if orFresh != "" {
				extra = fmt.Sprintf(orFresh, x.cur)
			}
			f = fmt.Sprintf("(or (= (select %s r) 0) (>= (select %s r) %s)%s)", x.cur, x.cur, nextOld, extra)
		case *types.Slice:
			f = fmt.Sprintf("(or (= (s_ref (select %s r)) 0) (>= (s_ref (select %s r)) %s))", x.cur, x.cur, nextOld)
		default:
			continue
		}
		vc.assume(fmt.Sprintf("(forall ((r Int)) (! (=> (or (>= r %s) (= r %s)) %s) :pattern ((select %s r))))", nextOld, ref, f, x.cur))
	}
}

type branchOut struct {
	guard string
	cur   string
	st    *State
	res   []string
	note  string
}

// mergeBranches joins the outcomes of mutually exclusive guarded branches.
func (vc *VC) mergeBranches(outs []branchOut, sig *types.Signature) []string {
	if len(outs) == 1 {
		vc.cur, vc.st = outs[0].cur, outs[0].st
		return outs[0].res
	}
	var curs []string
	for _, o := range outs {
		curs = append(curs, o.cur)
	}
	vc.cur = vc.define("R", "Bool", "(or "+strings.Join(curs, " ")+")")
	names := map[string]bool{}
	for _, o := range outs {
		for k := range o.st.h {
			names[k] = true
		}
	}
	st := &State{h: map[string]string{}}
	for _, k := range sortedKeys(names) {
		srt := vc.pre.heapSort[k]
		last := outs[len(outs)-1]
		term := vc.getH(last.st, k, srt)
		same := true
		for _, o := range outs {
			if vc.getH(o.st, k, srt) != term {
				same = false
			}
		}
		if same {
			if _, ok := last.st.h[k]; ok {
				st.h[k] = term
			}
			continue
		}
		for i := len(outs) - 2; i >= 0; i-- {
			term = fmt.Sprintf("(ite %s %s %s)", outs[i].guard, vc.getH(outs[i].st, k, srt), term)
		}
		st.h[k] = vc.define(k, srt, term)
	}
	vc.st = st
	var res []string
	for i := 0; i < sig.Results().Len(); i++ {
		term := outs[len(outs)-1].res[i]
		for j := len(outs) - 2; j >= 0; j-- {
			term = fmt.Sprintf("(ite %s %s %s)", outs[j].guard, outs[j].res[i], term)
		}
		res = append(res, vc.define("mr", vc.pre.sortOf(sig.Results().At(i).Type()), term))
	}
	return res
}

// dynamicCall: a call of a function value. The possible targets are the module functions of the same
// signature whose address is taken; each is applied under the guard that the value denotes it.
func (vc *VC) dynamicCall(com *ssa.CallCommon, d *callDesc) []string {
	fv := vc.val(com.Value)
	vc.safety("call of nil function value", fmt.Sprintf("(not (= %s 0))", fv))
	cands := vc.P.fvCandidates(d.sig)
	restricted := false
	if c := vc.r().contract; c != nil && len(c.FvTargets) > 0 {
		var keep []fvCand
		for _, cd := range cands {
			for _, pat := range c.FvTargets {
				if strings.Contains(funcKey(cd.fn), pat) {
					keep = append(keep, cd)
					break
				}
			}
		}
		cands = keep
		restricted = true
	}
	vc.pre.declFun("fv_fn", "(Int) Int")
	vc.pre.declFun("fv_recv", "(Int) Int")
	if !vc.feasible() {
		// the call site is unreachable
		vc.cur = vc.define("R", "Bool", "false")
		return vc.freshResults(d.sig, "fv")
	}
	base, baseCur := vc.st, vc.cur
	var outs []branchOut
	var guards []string
	for _, c := range cands {
		g := fmt.Sprintf("(= (fv_fn %s) %d)", fv, vc.P.fnID(funcKey(c.fn)))
		guards = append(guards, g)
		vc.st = base.clone()
		vc.cur = vc.define("R", "Bool", fmt.Sprintf("(and %s %s)", baseCur, g))
		if !vc.feasible() {
			continue // this target is impossible here
		}
		args := d.args
		argTypes := d.argTypes
		if c.bound {
			recvT := c.fn.Signature.Recv().Type()
			r := vc.define("fvrecv", "Int", fmt.Sprintf("(fv_recv %s)", fv))
			vc.assumeRange(r, recvT)
			args = append([]string{r}, d.args...)
			argTypes = append([]types.Type{recvT}, d.argTypes...)
		}
		res := vc.dispatch(staticDesc(c.fn, args, argTypes))
		outs = append(outs, branchOut{guard: g, cur: vc.cur, st: vc.st, res: res})
	}
	// none of the known targets
	vc.st = base.clone()
	none := "true"
	if len(guards) > 0 {
		none = "(not (or " + strings.Join(guards, " ") + "))"
		if len(guards) == 1 {
			none = "(not " + guards[0] + ")"
		}
	}
	vc.cur = vc.define("R", "Bool", fmt.Sprintf("(and %s %s)", baseCur, none))
	if !vc.feasible() {
		if len(outs) > 0 {
			return vc.mergeOrSplit(outs, d.sig)
		}
		vc.cur = vc.define("R", "Bool", "false")
		return vc.freshResults(d.sig, "fv")
	}
	if restricted {
		// the contract restricts the targets: show that no other target is possible here
		vc.oblige("fvtargets", "assert", fmt.Sprintf("function value called at %s denotes one of the declared targets", vc.pos()), "false", nil)
		vc.assume("false")
		if len(outs) > 0 {
			return vc.mergeOrSplit(outs, d.sig)
		}
	}
	if len(cands) == 0 {
		vc.warn("call of function value %s: no candidate targets, all heaps havocked", com.Value.Name())
	}
	vc.havocAll()
	outs = append(outs, branchOut{guard: none, cur: vc.cur, st: vc.st, res: vc.freshResults(d.sig, "fv")})
	return vc.mergeOrSplit(outs, d.sig)
}

// mergeOrSplit hands several outcomes to the caller for per-path continuation when that is allowed,
// and merges them otherwise.
func (vc *VC) mergeOrSplit(outs []branchOut, sig *types.Signature) []string {
	if vc.splitOK && len(outs) > 1 && len(outs) <= 12 {
		vc.pending = outs
		return outs[0].res
	}
	return vc.mergeBranches(outs, sig)
}

// invokeCandidates: an interface method call without a contract on the interface method is resolved
// over the module types implementing it, each under the guard that the receiver has that dynamic type.
func (vc *VC) invokeCandidates(d *callDesc, impls []implTarget) []string {
	base, baseCur := vc.st, vc.cur
	var outs []branchOut
	var guards []string
	for _, it := range impls {
		_, un := vc.pre.boxFns(it.dyn)
		g := fmt.Sprintf("(= (typeof %s) %d)", d.recv, vc.pre.typeID(it.dyn))
		guards = append(guards, g)
		vc.st = base.clone()
		vc.cur = vc.define("R", "Bool", fmt.Sprintf("(and %s %s)", baseCur, g))
		if !vc.feasible() {
			continue
		}
		rv := vc.define("dynrecv", vc.pre.sortOf(it.dyn), fmt.Sprintf("(%s %s)", un, d.recv))
		vc.assumeRange(rv, it.dyn)
		cur := TV{T: rv, Ty: it.dyn}
		// walk the embedding path to the receiver of the declared method
		okPath := true
		for _, idx := range it.path {
			t := types.Unalias(cur.Ty)
			if pt, ok := t.Underlying().(*types.Pointer); ok {
				st := types.Unalias(pt.Elem())
				if !isExpandedStruct(st) {
					okPath = false
					break
				}
				vc.safety("nil dereference through embedded receiver", fmt.Sprintf("(not (= %s 0))", cur.T))
				ft := st.Underlying().(*types.Struct).Field(idx).Type()
				cur = TV{T: fmt.Sprintf("(select %s %s)", vc.getH(vc.st, fieldHeap(st, idx), vc.fieldHeapSort(st, idx)), cur.T), Ty: ft}
			} else if isExpandedStruct(t) {
				ft := t.Underlying().(*types.Struct).Field(idx).Type()
				cur = TV{T: fmt.Sprintf("(%s %s)", fieldAcc(t, idx), cur.T), Ty: ft}
			} else {
				okPath = false
				break
			}
		}
		var res []string
		if !okPath {
			vc.havocAll()
			res = vc.freshResults(d.sig, "im")
		} else {
			r := vc.define("recv", vc.pre.sortOf(cur.Ty), cur.T)
			vc.assumeRange(r, cur.Ty)
			res = vc.dispatch(staticDesc(it.fn, append([]string{r}, d.args...), append([]types.Type{cur.Ty}, d.argTypes...)))
		}
		outs = append(outs, branchOut{guard: g, cur: vc.cur, st: vc.st, res: res})
	}
	vc.st = base.clone()
	none := "(not (or " + strings.Join(guards, " ") + "))"
	if len(guards) == 1 {
		none = "(not " + guards[0] + ")"
	}
	vc.cur = vc.define("R", "Bool", fmt.Sprintf("(and %s %s)", baseCur, none))
	if !vc.feasible() && len(outs) > 0 {
		return vc.mergeOrSplit(outs, d.sig)
	}
	vc.r().uncontracted[d.key+" (unknown dynamic type)"] = true
	vc.havocAll()
	outs = append(outs, branchOut{guard: none, cur: vc.cur, st: vc.st, res: vc.freshResults(d.sig, "im")})
	return vc.mergeOrSplit(outs, d.sig)
}

// inline translates a loop-free module callee without a contract in place.
func (vc *VC) inline(d *callDesc) ([]string, bool) {
	fn := d.fn
	if vc.depth >= 5 {
		return nil, false
	}
	for p := vc; p != nil; p = p.parent {
		if p.fn == fn {
			return nil, false
		}
	}
	n := 0
	for _, b := range fn.Blocks {
		n += len(b.Instrs)
		for _, p := range b.Preds {
			if b.Dominates(p) {
				return nil, false // has a loop
			}
		}
	}
	if n > 400 || len(fn.Params) != len(d.args) {
		return nil, false
	}
	if n > 40 && !vc.feasible() {
		vc.cur = vc.define("R", "Bool", "false")
		return vc.freshResults(d.sig, "nr"), true
	}
	ch := &VC{P: vc.P, fn: fn, key: funcKey(fn), pre: vc.pre, parent: vc, depth: vc.depth + 1,
		vals: map[ssa.Value]string{}, addrs: map[ssa.Value]*Addr{}, tuples: map[ssa.Value][]string{},
		reach: map[*ssa.BasicBlock]string{}, outSt: map[*ssa.BasicBlock]*State{}, outReach: map[*ssa.BasicBlock]string{},
		edge: map[[2]int]string{}, params: map[string]TV{}, prop: vc.prop, rangeIt: map[ssa.Value]*rangeInfo{},
		safetyOn: vc.safetyOn, safetyProp: vc.safetyProp, entry: vc.entry}
	ch.findLoops()
	for i, p := range fn.Params {
		ch.vals[p] = d.args[i]
		ch.params[p.Name()] = TV{T: d.args[i], Ty: p.Type()}
	}
	for _, fv := range fn.FreeVars {
		ch.vals[fv] = ch.declare("fv_"+fv.Name(), vc.pre.sortOf(fv.Type()))
	}
	ch.cur, ch.st = vc.cur, vc.st.clone()
	ch.assumeConstGlobals(fn)
	vc.cur = ch.cur
	vc.r().inlined[funcKey(fn)] = true
	var collected []inlRet
	ch.retsP = &collected
	ch.order = ch.rpo()
	for _, b := range ch.order {
		ch.block(b)
		if ch.done {
			break
		}
	}
	ch.rets = collected
	if len(ch.rets) == 0 {
		// callee never returns normally (always panics)
		vc.cur = vc.define("R", "Bool", "false")
		return vc.freshResults(d.sig, "nr"), true
	}
	var outs []branchOut
	for _, r := range ch.rets {
		var res []string
		for _, tv := range r.res {
			res = append(res, tv.T)
		}
		outs = append(outs, branchOut{guard: r.cur, cur: r.cur, st: r.st, res: res, note: r.note})
	}
	if vc.splitOK && len(outs) > 1 && len(outs) <= 12 {
		// tail position: let the caller continue once per return path
		vc.pending = outs
		return outs[0].res, true
	}
	return vc.mergeBranches(outs, d.sig), true
}

func calleeMatches(key, pat string) bool {
	if pat == "*" {
		return true
	}
	if key == pat || strings.HasSuffix(key, "."+pat) || strings.HasSuffix(key, ")."+pat) || strings.HasSuffix(key, "/"+pat) {
		return true
	}
	return false
}

func sortedKeys(m map[string]bool) []string {
	out := make([]string, 0, len(m))
	for k := range m {
		out = append(out, k)
	}
	sort.Strings(out)
	return out
}

func (vc *VC) havocAll() {
	for _, h := range sortedKeys(vc.P.allWrittenHeaps()) {
		if strings.HasPrefix(h, "$") {
			continue // ghost variables change only where a contract says so
		}
		vc.havocCallH(h)
	}
	vc.havocH(vc.st, "$next")
}

// defaultExternal applies the default summary of an external callee: it terminates,
// writes only memory reachable from its pointer arguments (and slice arguments for known
// slice writers), and returns arbitrary well-typed values.
func (vc *VC) defaultExternal(d *callDesc) {
	vc.r().defaultExt[d.key] = true
	if d.com != nil {
		for _, h := range vc.P.externalMods(d.com, d.key) {
			vc.havocCallH(h)
		}
	}
	vc.havocH(vc.st, "$next")
}

// ---------- builtins ----------

func (vc *VC) builtin(b *ssa.Builtin, com *ssa.CallCommon, args []string, ins ssa.Instruction) []string {
	name := "bi"
	if v, ok := ins.(ssa.Value); ok {
		name = v.Name()
	}
	switch b.Name() {
	case "len":
		t := types.Unalias(com.Args[0].Type()).Underlying()
		switch tt := t.(type) {
		case *types.Slice:
			return []string{vc.define(name, "Int", fmt.Sprintf("(s_len %s)", args[0]))}
		case *types.Basic:
			return []string{vc.define(name, "Int", fmt.Sprintf("(slen %s)", args[0]))}
		case *types.Map:
			r := vc.define(name, "Int", vc.mapLen(tt, args[0], vc.st))
			vc.assume(fmt.Sprintf("(>= %s 0)", r))
			return []string{r}
		case *types.Array:
			return []string{fmt.Sprintf("%d", tt.Len())}
		case *types.Pointer:
			if at, ok := types.Unalias(tt.Elem()).Underlying().(*types.Array); ok {
				return []string{fmt.Sprintf("%d", at.Len())}
			}
		}
		r := vc.declare(name, "Int")
		vc.assume(fmt.Sprintf("(>= %s 0)", r))
		return []string{r}
	case "cap":
		r := vc.declare(name, "Int")
		if _, ok := types.Unalias(com.Args[0].Type()).Underlying().(*types.Slice); ok {
			vc.assume(fmt.Sprintf("(>= %s (s_len %s))", r, args[0]))
		} else {
			vc.assume(fmt.Sprintf("(>= %s 0)", r))
		}
		return []string{r}
	case "append":
		st, ok := types.Unalias(com.Args[0].Type()).Underlying().(*types.Slice)
		if !ok {
			vc.unsup("append on %s", com.Args[0].Type())
			return []string{vc.declare(name, "Slice")}
		}
		return []string{vc.appendSlices(name, st.Elem(), args[0], com.Args[1], args[1])}
	case "copy":
		dt, ok := types.Unalias(com.Args[0].Type()).Underlying().(*types.Slice)
		if !ok {
			vc.unsup("copy into %s", com.Args[0].Type())
			return []string{vc.declare(name, "Int")}
		}
		return []string{vc.copySlices(name, dt.Elem(), args[0], com.Args[1], args[1])}
	case "delete":
		vc.mapUpdate(com.Args[0], args[1], "", true)
		return nil
	case "panic":
		if vc.contract == nil || !vc.contract.MayPanic {
			vc.safety("explicit panic reachable", "false")
		}
		return nil
	case "print", "println":
		return nil
	case "min", "max":
		op := "<="
		if b.Name() == "max" {
			op = ">="
		}
		cur := args[0]
		for _, a := range args[1:] {
			cur = fmt.Sprintf("(ite (%s %s %s) %s %s)", op, cur, a, cur, a)
		}
		return []string{vc.define(name, vc.pre.sortOf(com.Args[0].Type()), cur)}
	case "recover":
		return []string{"inil"}
	}
	vc.unsup("builtin %s", b.Name())
	return vc.freshResults(com.Signature(), "bi")
}

func (vc *VC) mapLen(mt *types.Map, m string, st *State) string {
	dn, ds, _, _ := vc.mapHeaps(mt)
	ksort := vc.pre.sortOf(mt.Key())
	card := vc.pre.cardFn("(Array " + ksort + " Bool)")
	return fmt.Sprintf("(ite (= %s 0) 0 (%s (select %s %s)))", m, card, vc.getH(st, dn, ds), m)
}

// appendSlices models append(a, b...) as allocation of a fresh backing array holding a ++ b.
func (vc *VC) appendSlices(name string, elem types.Type, a string, bv ssa.Value, b string) string {
	es := vc.pre.sortOf(elem)
	n, s := vc.arrHeap(elem)
	h := vc.getH(vc.st, n, s)
	ref := vc.freshRef()
	arr := vc.declare(name+"_arr", "(Array Int "+es+")")
	var blen, bget, bidx string
	isStr := vc.pre.sortOf(bv.Type()) == "Str"
	if isStr { // append([]byte, string...)
		vc.pre.declFun("sbytes", "(Str) (Array Int Int)")
		blen = fmt.Sprintf("(slen %s)", b)
		bget = fmt.Sprintf("(select (sbytes %s) (- k (s_len %s)))", b, a)
		bidx = "true"
	} else {
		blen = fmt.Sprintf("(s_len %s)", b)
		bget = fmt.Sprintf("(select (select %s (s_ref %s)) (+ (s_off %s) (- k (s_len %s))))", h, b, b, a)
		bidx = fmt.Sprintf("(= (idx %s (- k (s_len %s))) (+ (s_off %s) (- k (s_len %s))))", b, a, b, a)
	}
	res := vc.define(name, "Slice", fmt.Sprintf("(mk_slice %s 0 (+ (s_len %s) %s))", ref, a, blen))
	// content of the new array, and the definition of idx on the slices involved (trigger bridge)
	vc.assume(fmt.Sprintf("(forall ((k Int)) (! (and (= (idx %s k) k) (= (idx %s k) (+ (s_off %s) k)) %s (=> (and (<= 0 k) (< k (s_len %s))) (= (select %s k) (select (select %s (s_ref %s)) (+ (s_off %s) k)))) (=> (and (<= (s_len %s) k) (< k (+ (s_len %s) %s))) (= (select %s k) %s))) :pattern ((idx %s k)) :pattern ((idx %s k)) :pattern ((select %s k))))",
		res, a, a, bidx, a, arr, h, a, a, a, a, blen, arr, bget, res, a, arr))
	if !isStr {
		// single-element append onto a slice that starts at offset 0: closed form, no quantifier needed
		vc.assume(fmt.Sprintf("(=> (and (= (s_off %s) 0) (= (s_len %s) 1)) (= %s (store (select %s (s_ref %s)) (s_len %s) (select (select %s (s_ref %s)) (s_off %s)))))", a, b, arr, h, a, a, h, b, b))
		// ground witness for the appended element (so that existential goals about it can be instantiated)
		vc.assume(fmt.Sprintf("(=> (= (s_len %s) 1) (and (= (idx %s (s_len %s)) (s_len %s)) (= (select %s (s_len %s)) (select (select %s (s_ref %s)) (s_off %s)))))", b, res, a, a, arr, a, h, b, b))
	}
	vc.setH(vc.st, n, s, fmt.Sprintf("(store %s %s %s)", h, ref, arr))
	return res
}

func (vc *VC) copySlices(name string, elem types.Type, d string, sv ssa.Value, s string) string {
	es := vc.pre.sortOf(elem)
	hn, hs := vc.arrHeap(elem)
	h := vc.getH(vc.st, hn, hs)
	var slen, sget string
	if vc.pre.sortOf(sv.Type()) == "Str" {
		vc.pre.declFun("sbytes", "(Str) (Array Int Int)")
		slen = fmt.Sprintf("(slen %s)", s)
		sget = fmt.Sprintf("(select (sbytes %s) (- k (s_off %s)))", s, d)
	} else {
		slen = fmt.Sprintf("(s_len %s)", s)
		sget = fmt.Sprintf("(select (select %s (s_ref %s)) (+ (s_off %s) (- k (s_off %s))))", h, s, s, d)
	}
	n := vc.define(name, "Int", fmt.Sprintf("(ite (< (s_len %s) %s) (s_len %s) %s)", d, slen, d, slen))
	arr := vc.declare(name+"_arr", "(Array Int "+es+")")
	old := fmt.Sprintf("(select %s (s_ref %s))", h, d)
	vc.assume(fmt.Sprintf("(forall ((k Int)) (! (ite (and (<= (s_off %s) k) (< k (+ (s_off %s) %s))) (= (select %s k) %s) (= (select %s k) (select %s k))) :pattern ((select %s k))))",
		d, d, n, arr, sget, arr, old, arr))
	vc.setH(vc.st, hn, hs, fmt.Sprintf("(ite (= %s 0) %s (store %s (s_ref %s) %s))", n, h, h, d, arr))
	// a copy that fills the whole destination from an equally long source transfers the abstract content
	if es == "Int" && heapTypeKey(elem) == "uint8" {
		var srcContent string
		if vc.pre.sortOf(sv.Type()) == "Str" {
			srcContent = fmt.Sprintf("(s2c %s)", s)
		} else {
			srcContent = fmt.Sprintf("(bcontent (select %s (s_ref %s)) (s_off %s) (s_len %s))", h, s, s, s)
		}
		vc.assume(fmt.Sprintf("(=> (and (= (s_len %s) %s) (not (= (s_ref %s) %s))) (= %s %s))", d, slen, d, refOfSrc(s, vc.pre.sortOf(sv.Type())), vc.contentOf(d, vc.st), srcContent))
	}
	return n
}

func refOfSrc(s, sort string) string {
	if sort == "Str" {
		return "(- 1)"
	}
	return "(s_ref " + s + ")"
}

// ---------- contracts at call sites ----------

func (vc *VC) applyContract(c *Contract, d *callDesc) []string {
	key, args, recv := d.key, d.args, d.recv
	if c.Assumed {
		vc.r().assumedUsed[key] = true
	}
	sig := d.sig
	pre := vc.st.clone()
	env := vc.callSiteEnv(d)
	env.pkgPath = c.PkgPath
	if len(c.Params) > 0 {
		// explicit parameter names override
		all := append([]string{}, args...)
		tys := []types.Type{}
		if d.isInvoke {
			all = append([]string{recv}, args...)
			tys = append(tys, d.recvType)
		}
		tys = append(tys, d.argTypes...)
		for i, n := range c.Params {
			if i < len(all) {
				env.vars[n] = TV{T: all[i], Ty: tys[i]}
			}
		}
	}
	for _, r := range c.Requires {
		name := "pre:" + shortKey(key)
		if len(r.Labels) > 0 {
			name = "[" + strings.Join(r.Labels, ",") + "]"
		}
		if !vc.clauseOn(r) {
			vc.assume(vc.evalBool(env, r.E, r))
			continue
		}
		goal := vc.evalGoal(env, r.E, r)
		vc.oblige(name, "pre@call", fmt.Sprintf("precondition of %s at %s: %s", key, vc.pos(), r.Text), goal, r)
		vc.assume(goal)
	}
	// havoc
	var mods map[string]bool
	if c.HasMod {
		mods = vc.resolveModifies(c)
	} else if fn := d.fn; fn != nil && len(fn.Blocks) > 0 {
		mods = vc.P.modsetOf(fn)
	} else if d.isInvoke && inModule(d.method.Pkg()) {
		mods = map[string]bool{}
		for _, it := range vc.P.implementations(d.method) {
			for h := range vc.P.modsetOf(it.fn) {
				mods[h] = true
			}
		}
	} else {
		mods = map[string]bool{}
		if d.com != nil {
			for _, h := range vc.P.externalMods(d.com, key) {
				mods[h] = true
			}
		}
	}
	for _, ga := range c.Epilogue {
		mods[ga.Var] = true
	}
	for _, ga := range c.Prologue {
		mods[ga.Var] = true
	}
	// the buffer-model ghosts ($buf...) are scratch state: they need not be declared by in-module functions (the frame
	// check skips them), so a call of any in-module function forgets them
	if d.fn != nil && len(d.fn.Blocks) > 0 {
		for name := range vc.P.Spec.GhostVars {
			if strings.HasPrefix(name, "$buf") {
				mods[name] = true
			}
		}
	}
	for _, h := range sortedKeys(mods) {
		vc.havocCallH(h)
	}
	vc.havocH(vc.st, "$next")
	res := vc.freshResults(sig, "r")
	post := &Env{vc: vc, pkgPath: c.PkgPath, vars: env.vars, cur: vc.st, old: pre}
	var rtv []TV
	for i, r := range res {
		rtv = append(rtv, TV{T: r, Ty: sig.Results().At(i).Type()})
	}
	vc.bindResults(post, sig, rtv)
	for _, ga := range c.Epilogue {
		vc.ghostAssign(post, ga, vc.st)
	}
	for _, e := range c.Ensures {
		if e.Trusted {
			vc.r().assumedUsed[key+" (trusted clause "+e.Name()+": "+trunc(e.Text, 100)+")"] = true
		}
		vc.assume(vc.evalBool(post, e.E, e))
	}
	return res
}

// applyBehaviors applies a function described by behaviours: one of them must be applicable, and
// every behaviour whose assumptions held in the pre-state contributes its postconditions.
func (vc *VC) applyBehaviors(bs []*Contract, d *callDesc) []string {
	key := d.key
	sig := d.sig
	pre := vc.st.clone()
	var reqs []string
	for _, c := range bs {
		env := vc.callSiteEnv(d)
		env.pkgPath = c.PkgPath
		var rs []string
		for _, r := range c.Requires {
			rs = append(rs, vc.evalGoal(env, r.E, r))
		}
		if len(rs) == 0 {
			rs = []string{"true"}
		}
		reqs = append(reqs, vc.define("bhv_"+c.Behavior, "Bool", "(and "+strings.Join(rs, " ")+")"))
	}
	goal := "(or " + strings.Join(reqs, " ") + ")"
	if len(reqs) == 1 {
		goal = reqs[0]
	}
	vc.oblige("pre:"+shortKey(key), "pre@call", fmt.Sprintf("one behaviour of %s is applicable at %s", key, vc.pos()), goal, nil)
	vc.assume(goal)
	mods := map[string]bool{}
	if fn := d.fn; fn != nil && len(fn.Blocks) > 0 {
		mods = vc.P.modsetOf(fn)
	}
	for _, h := range sortedKeys(mods) {
		vc.havocCallH(h)
	}
	vc.havocH(vc.st, "$next")
	res := vc.freshResults(sig, "r")
	for i, c := range bs {
		env := vc.callSiteEnv(d)
		post := &Env{vc: vc, pkgPath: c.PkgPath, vars: env.vars, cur: vc.st, old: pre}
		var rtv []TV
		for j, r := range res {
			rtv = append(rtv, TV{T: r, Ty: sig.Results().At(j).Type()})
		}
		vc.bindResults(post, sig, rtv)
		var es []string
		for _, e := range c.Ensures {
			if e.Trusted {
				vc.r().assumedUsed[key+" (trusted clause "+e.Name()+")"] = true
			}
			es = append(es, vc.evalBool(post, e.E, e))
		}
		if len(es) > 0 {
			vc.assume(fmt.Sprintf("(=> %s (and %s))", reqs[i], strings.Join(es, " ")))
		}
	}
	return res
}

func shortKey(key string) string {
	if i := strings.LastIndex(key, "/"); i >= 0 {
		return key[i+1:]
	}
	return key
}

// callSiteEnv binds the callee's parameter names to the actual arguments; the caller's
// own parameters remain visible under their names when not shadowed.
// callSiteEnv binds the callee's parameter names to the arguments. Only call-site assertions of the caller's own
// contract also see the caller's parameters (withCaller): a callee's contract must not capture caller names.
func (vc *VC) callSiteEnv(d *callDesc, withCaller ...bool) *Env {
	env := &Env{vc: vc, pkgPath: vc.pkgPath(), vars: map[string]TV{}, cur: vc.st, old: vc.entry}
	if len(withCaller) > 0 && withCaller[0] {
		for k, v := range vc.params {
			env.vars[k] = v
		}
	}
	fsig := d.fsig
	args := d.args
	idx := 0
	if d.isInvoke {
		env.vars["recv"] = TV{T: d.recv, Ty: d.recvType}
		env.vars["self"] = TV{T: d.recv, Ty: d.recvType}
	} else if fsig.Recv() != nil && len(args) > 0 {
		name := fsig.Recv().Name()
		if name == "" || name == "_" {
			name = "recv"
		}
		tv := TV{T: args[0], Ty: d.argTypes[0]}
		env.vars[name] = tv
		env.vars["self"] = tv
		idx = 1
	}
	for i := 0; i < fsig.Params().Len() && idx+i < len(args); i++ {
		name := fsig.Params().At(i).Name()
		tv := TV{T: args[idx+i], Ty: d.argTypes[idx+i]}
		if name != "" && name != "_" {
			env.vars[name] = tv
		}
		env.vars[fmt.Sprintf("arg%d", i)] = tv
	}
	return env
}

func (vc *VC) pkgPath() string {
	if vc.fn.Pkg != nil {
		return vc.fn.Pkg.Pkg.Path()
	}
	return ""
}

func (vc *VC) bindResults(env *Env, sig *types.Signature, res []TV) {
	vars := map[string]TV{}
	for k, v := range env.vars {
		vars[k] = v
	}
	env.vars = vars
	for i, r := range res {
		name := sig.Results().At(i).Name()
		if name != "" && name != "_" {
			env.vars[name] = r
		}
		env.vars[fmt.Sprintf("result%d", i)] = r
		if len(res) == 1 {
			env.vars["result"] = r
		}
		// conventional names for unnamed (T, error) results
		if name == "" || name == "_" {
			if isErrorType(r.Ty) {
				if _, ok := env.vars["err"]; !ok || i == len(res)-1 {
					env.vars["err"] = r
				}
			} else if i == 0 {
				env.vars["result"] = r
			}
		}
	}
}

func isErrorType(t types.Type) bool {
	return t != nil && typeStr(t) == "error"
}

// siteLocals resolves source-level local variable names at an instruction: the value most recently bound
// to the name by a debug reference in a dominating position, or the content of an address-taken local.
func (vc *VC) siteLocals(at ssa.Instruction) func(name string) (TV, bool) {
	return func(name string) (TV, bool) {
		if at == nil {
			return TV{}, false
		}
		b := at.Block()
		if name == "$i" {
			// the index variable of the nearest enclosing range-over-slice loop (the current index is $i + 1)
			for blk := b; blk != nil; blk = blk.Idom() {
				for _, ins := range blk.Instrs {
					if phi, ok := ins.(*ssa.Phi); ok && phi.Comment == "rangeindex" {
						return TV{T: vc.val(phi), Ty: phi.Type()}, true
					}
				}
			}
			return TV{}, false
		}
		for _, blk := range vc.fn.Blocks {
			for _, ins := range blk.Instrs {
				if al, ok := ins.(*ssa.Alloc); ok && al.Comment == name {
					if _, ok := vc.vals[al]; !ok {
						continue
					}
					a := vc.addrOf(al)
					return TV{T: vc.load(a, vc.st), Ty: al.Type().(*types.Pointer).Elem()}, true
				}
			}
		}
		first := false
		if strings.HasPrefix(name, "0:") {
			first, name = true, name[2:]
		}
		var found ssa.Value
		var foundPos token.Pos
		for _, blk := range vc.fn.Blocks {
			if !blk.Dominates(b) {
				continue
			}
			for _, ins := range blk.Instrs {
				if blk == b && ins == at {
					break
				}
				if dr, ok := ins.(*ssa.DebugRef); ok && !dr.IsAddr && identName(dr) == name {
					if _, ok := vc.vals[dr.X]; ok || isConst(dr.X) {
						if first {
							// the binding with the smallest source position (the variable's definition)
							if found == nil || dr.Pos() < foundPos {
								found, foundPos = dr.X, dr.Pos()
							}
						} else {
							found = dr.X
						}
					}
				}
			}
		}
		if found != nil {
			return TV{T: vc.val(found), Ty: found.Type()}, true
		}
		return TV{}, false
	}
}

// havocCallH forgets heap h because a callee may write it, except for the local variables of the
// functions being translated whose address never leaves their function: no callee can reach those.
func (vc *VC) havocCallH(h string) {
	srt, ok := vc.pre.heapSort[h]
	if !ok {
		srt = vc.heapSortByName(h)
	}
	if srt == "" || !strings.HasPrefix(srt, "(Array Int ") {
		vc.havocH(vc.st, h)
		return
	}
	vc.pre.heap(h, srt)
	old := vc.getH(vc.st, h, srt)
	vc.havocH(vc.st, h)
	cur := vc.getH(vc.st, h, srt)
	if cur == old {
		return
	}
	seen := map[*ssa.Alloc]bool{}
	for p := vc; p != nil; p = p.parent {
		if p.fn == nil {
			continue
		}
		for _, a := range vc.P.privateAllocs(p.fn) {
			if seen[a] {
				continue
			}
			seen[a] = true
			t, ok := p.vals[a]
			if !ok {
				continue
			}
			for _, ph := range pointeeHeaps(a.Type().Underlying().(*types.Pointer).Elem()) {
				if ph == h {
					vc.assume(fmt.Sprintf("(= (select %s %s) (select %s %s))", cur, t, old, t))
				}
			}
		}
	}
}

// callSiteOrdinal numbers the call sites of a callee within the function in source order (1-based).
func (vc *VC) callSiteOrdinal(at ssa.Instruction, callee string) int {
	type site struct {
		pos token.Pos
		ins ssa.Instruction
	}
	var sites []site
	for _, b := range vc.fn.Blocks {
		for _, ins := range b.Instrs {
			var com *ssa.CallCommon
			switch x := ins.(type) {
			case *ssa.Call:
				com = x.Common()
			case *ssa.Defer:
				com = x.Common()
			case *ssa.Go:
				com = x.Common()
			}
			if com != nil && calleeMatches(calleeKey(com), callee) {
				sites = append(sites, site{ins.Pos(), ins})
			}
		}
	}
	sort.Slice(sites, func(i, j int) bool { return sites[i].pos < sites[j].pos })
	for i, s := range sites {
		if s.ins == at {
			return i + 1
		}
	}
	return 0
}
