package main

import (
	"fmt"
	"go/types"
	"math/big"
	"sort"
	"strings"
)

// Prelude collects the declarations a VC script needs, on demand.
type Prelude struct {
	sortDecls  []string
	sortDone   map[string]bool
	funDecls   []string
	funDone    map[string]bool
	axioms     []string
	strLits    map[string]string
	strOrder   []string
	typeIDs    map[string]int
	typeOrder  []string
	heapSort   map[string]string // heap var -> sort
	heapOrder  []string
	boxed      map[string]types.Type
	cardSorts  map[string]bool
	ifaceImpls map[string]bool
}

func NewPrelude() *Prelude {
	return &Prelude{sortDone: map[string]bool{}, funDone: map[string]bool{}, strLits: map[string]string{}, typeIDs: map[string]int{},
		heapSort: map[string]string{}, boxed: map[string]types.Type{}, cardSorts: map[string]bool{}, ifaceImpls: map[string]bool{}}
}

func q(s string) string {
	s = strings.ReplaceAll(s, "|", "!")
	s = strings.ReplaceAll(s, "\\", "!")
	return "|" + s + "|"
}

func typeStr(t types.Type) string {
	if r, ok := t.(*RawMap); ok {
		return r.String()
	}
	if b, ok := t.(*BytesVal); ok {
		return b.String()
	}
	return types.TypeString(t, nil)
}

// plain data records of the kyber library whose exported fields the ceremony code reads directly
var expandedExternal = map[string]bool{
	"github.com/corestario/kyber/share/dkg/pedersen.Deal":     true,
	"github.com/corestario/kyber/share/dkg/pedersen.Response": true,
	"github.com/corestario/kyber/share/vss/pedersen.Deal":     true,
	"github.com/corestario/kyber/share/vss/pedersen.Response": true,
}

func expandStruct(t types.Type) bool {
	if n, ok := t.(*types.Named); ok {
		if n.Obj().Pkg() != nil && expandedExternal[n.Obj().Pkg().Path()+"."+n.Obj().Name()] {
			return true
		}
		return inModule(n.Obj().Pkg())
	}
	if a, ok := t.(*types.Alias); ok {
		return expandStruct(types.Unalias(a))
	}
	return true // anonymous struct
}

// RawMap is the type of a mathematical map / set value (an SMT array), as opposed to a Go map,
// which is a reference. Written set[K] and mmap[K,V] in contracts.
type RawMap struct{ Key, Elem types.Type }

func (r *RawMap) Underlying() types.Type { return r }
func (r *RawMap) String() string         { return "mmap[" + typeStr(r.Key) + "," + typeStr(r.Elem) + "]" }

func (p *Prelude) sortOf(t types.Type) string {
	if _, ok := t.(*BytesVal); ok {
		return "Bytes"
	}
	if r, ok := t.(*RawMap); ok {
		return "(Array " + p.sortOf(r.Key) + " " + p.sortOf(r.Elem) + ")"
	}
	t = types.Unalias(t)
	switch u := t.Underlying().(type) {
	case *types.Basic:
		switch {
		case u.Info()&types.IsBoolean != 0:
			return "Bool"
		case u.Info()&types.IsInteger != 0:
			return "Int"
		case u.Info()&types.IsString != 0:
			return "Str"
		case u.Info()&types.IsFloat != 0:
			return "Real"
		case u.Kind() == types.UnsafePointer:
			return "Int"
		case u.Kind() == types.UntypedNil:
			return "Int"
		}
		return "Int"
	case *types.Pointer, *types.Map, *types.Chan, *types.Signature:
		return "Int"
	case *types.Slice:
		return "Slice"
	case *types.Array:
		return "(Array Int " + p.sortOf(u.Elem()) + ")"
	case *types.Interface:
		return "Iface"
	case *types.Struct:
		if !expandStruct(t) {
			name := q("O:" + typeStr(t))
			if !p.sortDone[name] {
				p.sortDone[name] = true
				p.sortDecls = append(p.sortDecls, fmt.Sprintf("(declare-sort %s 0)", name))
				p.funDecls = append(p.funDecls, fmt.Sprintf("(declare-const %s %s)", q("zero:O:"+typeStr(t)), name))
			}
			return name
		}
		name := q("T:" + typeStr(t))
		if !p.sortDone[name] {
			p.sortDone[name] = true
			var fs []string
			for i := 0; i < u.NumFields(); i++ {
				fs = append(fs, fmt.Sprintf("(%s %s)", fieldAcc(t, i), p.sortOf(u.Field(i).Type())))
			}
			ctor := q("mk:" + typeStr(t))
			if len(fs) == 0 {
				p.sortDecls = append(p.sortDecls, fmt.Sprintf("(declare-datatypes ((%s 0)) (((%s))))", name, ctor))
			} else {
				p.sortDecls = append(p.sortDecls, fmt.Sprintf("(declare-datatypes ((%s 0)) (((%s %s))))", name, ctor, strings.Join(fs, " ")))
			}
		}
		return name
	case *types.Tuple:
		return "Int"
	}
	return "Int"
}

func fieldAcc(t types.Type, i int) string {
	st := t.Underlying().(*types.Struct)
	return q(typeStr(t) + "." + st.Field(i).Name())
}

func structCtor(t types.Type) string { return q("mk:" + typeStr(t)) }

func intLit(v *big.Int) string {
	if v.Sign() < 0 {
		return "(- " + new(big.Int).Neg(v).String() + ")"
	}
	return v.String()
}

func (p *Prelude) strLit(s string) string {
	if s == "" {
		return "str_empty"
	}
	if n, ok := p.strLits[s]; ok {
		return n
	}
	n := fmt.Sprintf("strlit_%d", len(p.strLits))
	p.strLits[s] = n
	p.strOrder = append(p.strOrder, s)
	return n
}

func (p *Prelude) zeroOf(t types.Type) string {
	t = types.Unalias(t)
	switch u := t.Underlying().(type) {
	case *types.Basic:
		switch {
		case u.Info()&types.IsBoolean != 0:
			return "false"
		case u.Info()&types.IsString != 0:
			return "str_empty"
		case u.Info()&types.IsFloat != 0:
			return "0.0"
		}
		return "0"
	case *types.Slice:
		return "(mk_slice 0 0 0)"
	case *types.Array:
		es := p.sortOf(u.Elem())
		if es == "Int" || es == "Bool" || es == "Real" {
			return fmt.Sprintf("((as const %s) %s)", p.sortOf(t), p.zeroOf(u.Elem()))
		}
		// element sorts without literal values: a named all-zero array (cvc5 accepts only values in const arrays)
		name := q("zeroarr:" + es)
		if !p.funDone[name] {
			p.funDone[name] = true
			p.funDecls = append(p.funDecls, fmt.Sprintf("(declare-const %s (Array Int %s))", name, es))
			p.axioms = append(p.axioms, fmt.Sprintf("(assert (forall ((i Int)) (! (= (select %s i) %s) :pattern ((select %s i)))))", name, p.zeroOf(u.Elem()), name))
		}
		return name
	case *types.Interface:
		return "inil"
	case *types.Struct:
		s := p.sortOf(t)
		if strings.HasPrefix(s, "|O:") {
			return q("zero:O:" + typeStr(t))
		}
		if u.NumFields() == 0 {
			return structCtor(t)
		}
		var fs []string
		for i := 0; i < u.NumFields(); i++ {
			fs = append(fs, p.zeroOf(u.Field(i).Type()))
		}
		return "(" + structCtor(t) + " " + strings.Join(fs, " ") + ")"
	}
	return "0"
}

func (p *Prelude) typeID(t types.Type) int {
	s := typeStr(types.Unalias(t))
	if id, ok := p.typeIDs[s]; ok {
		return id
	}
	id := len(p.typeIDs) + 1
	p.typeIDs[s] = id
	p.typeOrder = append(p.typeOrder, s)
	return id
}

// box/unbox function names for dynamic type t
func (p *Prelude) boxFns(t types.Type) (string, string) {
	t = types.Unalias(t)
	ts := typeStr(t)
	bn, un := q("box:"+ts), q("unbox:"+ts)
	if _, ok := p.boxed[ts]; !ok {
		p.boxed[ts] = t
		s := p.sortOf(t)
		id := p.typeID(t)
		p.funDecls = append(p.funDecls,
			fmt.Sprintf("(declare-fun %s (%s) Iface)", bn, s),
			fmt.Sprintf("(declare-fun %s (Iface) %s)", un, s))
		_ = id
	}
	return bn, un
}

func (p *Prelude) declFun(name, sig string) {
	if !p.funDone[name] {
		p.funDone[name] = true
		p.funDecls = append(p.funDecls, fmt.Sprintf("(declare-fun %s %s)", name, sig))
	}
}

func (p *Prelude) heap(name, sort string) {
	if _, ok := p.heapSort[name]; !ok {
		p.heapSort[name] = sort
		p.heapOrder = append(p.heapOrder, name)
	}
}

func (p *Prelude) cardFn(domSort string) string {
	name := q("card:" + domSort)
	if !p.cardSorts[domSort] {
		p.cardSorts[domSort] = true
		p.funDecls = append(p.funDecls, fmt.Sprintf("(declare-fun %s (%s) Int)", name, domSort))
	}
	return name
}

const basePrelude = `(set-option :print-success false)
(set-option :produce-models true)
(set-logic ALL)
(declare-sort Str 0)
(declare-sort Iface 0)
(declare-fun slen (Str) Int)
(declare-const str_empty Str)
(declare-const inil Iface)
(declare-fun typeof (Iface) Int)
(declare-fun implements (Int Int) Bool)
(declare-fun sconcat (Str Str) Str)
(declare-fun ssub (Str Int Int) Str)
(declare-fun schar (Str Int) Int)
(declare-fun str_hasprefix (Str Str) Bool)
(declare-fun str_hassuffix (Str Str) Bool)
(declare-datatypes ((Slice 0)) (((mk_slice (s_ref Int) (s_off Int) (s_len Int)))))
(declare-fun idx (Slice Int) Int)
(declare-sort Bytes 0)
(declare-fun bcontent ((Array Int Int) Int Int) Bytes)
(declare-fun blen (Bytes) Int)
(declare-fun s2c (Str) Bytes)
(declare-fun c2s (Bytes) Str)
(assert (= (slen str_empty) 0))
(assert (= (typeof inil) 0))
`

// Text renders the full prelude. Must be called after VC generation is finished.
func (p *Prelude) Text() string {
	var b strings.Builder
	b.WriteString(basePrelude)
	for _, d := range p.sortDecls {
		b.WriteString(d + "\n")
	}
	for _, d := range p.funDecls {
		b.WriteString(d + "\n")
	}
	// string literals: distinct, with lengths and prefix/suffix ground facts
	if len(p.strOrder) > 0 {
		var names []string
		for _, s := range p.strOrder {
			n := p.strLits[s]
			names = append(names, n)
			fmt.Fprintf(&b, "(declare-const %s Str) ; %q\n", n, trunc(s, 60))
			fmt.Fprintf(&b, "(assert (= (slen %s) %d))\n", n, len(s))
		}
		if len(names) > 1 {
			fmt.Fprintf(&b, "(assert (distinct %s))\n", strings.Join(names, " "))
		}
		for _, a := range p.strOrder {
			if !p.funDone["use:prefix"] {
				break
			}
			for _, c := range p.strOrder {
				if strings.HasPrefix(a, c) {
					fmt.Fprintf(&b, "(assert (str_hasprefix %s %s))\n", p.strLits[a], p.strLits[c])
				} else {
					fmt.Fprintf(&b, "(assert (not (str_hasprefix %s %s)))\n", p.strLits[a], p.strLits[c])
				}
				if strings.HasSuffix(a, c) {
					fmt.Fprintf(&b, "(assert (str_hassuffix %s %s))\n", p.strLits[a], p.strLits[c])
				} else {
					fmt.Fprintf(&b, "(assert (not (str_hassuffix %s %s)))\n", p.strLits[a], p.strLits[c])
				}
			}
			fmt.Fprintf(&b, "(assert (str_hasprefix %s str_empty))\n(assert (str_hassuffix %s str_empty))\n", p.strLits[a], p.strLits[a])
		}
	}
	hs := append([]string(nil), p.heapOrder...)
	sort.Strings(hs)
	for _, h := range hs {
		fmt.Fprintf(&b, "(declare-const %s %s)\n", q(h+"@0"), p.heapSort[h])
	}
	for _, a := range p.axioms {
		b.WriteString(a + "\n")
	}
	return b.String()
}

func trunc(s string, n int) string {
	s = strings.ReplaceAll(s, "\n", "\\n")
	if len(s) > n {
		return s[:n] + "..."
	}
	return s
}
