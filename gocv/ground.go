package main

import (
	"fmt"
	"go/ast"
	"go/constant"
	"go/token"
	"os"
	"path/filepath"
	"strconv"
	"strings"
)

// Ground lemmas (`//@ ground[label] expr`) are closed statements over constant data of the repository
// (package-level constants, constant initialisers, go:embed files) and ghost functions that have a
// native definition. They are decided by evaluation: bounded quantifiers are enumerated exhaustively,
// ghost functions run the real library function they abstract (strings.Split, strconv.ParseInt), so the
// assumed contracts of those library functions and the ground facts agree by construction.
// A ground lemma that evaluates to true is then available to the solver as an axiom.

type groundEval struct {
	P       *Prog
	pkgPath string
	vars    map[string]interface{}
	splitC  map[[2]string][]string
	steps   int64
	witness string
}

type groundErr string

func (g *groundEval) fail(f string, a ...interface{}) { panic(groundErr(fmt.Sprintf(f, a...))) }

// EvalGround decides a ground lemma; witness describes the failing binding when the result is false.
func (P *Prog) EvalGround(c *Clause, pkgPath string) (ok bool, witness string, steps int64, err error) {
	g := &groundEval{P: P, pkgPath: pkgPath, vars: map[string]interface{}{}, splitC: map[[2]string][]string{}}
	defer func() {
		if r := recover(); r != nil {
			if ge, isG := r.(groundErr); isG {
				err = fmt.Errorf("ground lemma %s: %s", c.Name(), string(ge))
				return
			}
			err = fmt.Errorf("ground lemma %s: %v", c.Name(), r)
		}
	}()
	v := g.eval(c.E)
	b, isB := v.(bool)
	if !isB {
		g.fail("not a boolean statement")
	}
	return b, g.witness, g.steps, nil
}

func (g *groundEval) split(s, sep string) []string {
	k := [2]string{s, sep}
	if r, ok := g.splitC[k]; ok {
		return r
	}
	r := strings.Split(s, sep)
	g.splitC[k] = r
	return r
}

func (g *groundEval) global(name string) (interface{}, bool) {
	for _, pkg := range g.P.Pkgs {
		if pkg.PkgPath != g.pkgPath {
			continue
		}
		obj := pkg.Types.Scope().Lookup(name)
		if obj == nil {
			return nil, false
		}
		for _, f := range pkg.Syntax {
			for _, d := range f.Decls {
				gd, ok := d.(*ast.GenDecl)
				if !ok || (gd.Tok != token.VAR && gd.Tok != token.CONST) {
					continue
				}
				for _, sp := range gd.Specs {
					vs := sp.(*ast.ValueSpec)
					for i, nm := range vs.Names {
						if nm.Name != name {
							continue
						}
						// go:embed
						doc := vs.Doc
						if doc == nil && len(gd.Specs) == 1 {
							doc = gd.Doc
						}
						if doc != nil {
							for _, cm := range doc.List {
								if strings.HasPrefix(cm.Text, "//go:embed ") {
									fn := strings.TrimSpace(strings.TrimPrefix(cm.Text, "//go:embed "))
									dir := filepath.Dir(g.P.Fset.Position(f.Pos()).Filename)
									data, err := os.ReadFile(filepath.Join(dir, fn))
									if err != nil {
										g.fail("embedded file of %s: %v", name, err)
									}
									return string(data), true
								}
							}
						}
						if i < len(vs.Values) {
							if tv, ok := pkg.TypesInfo.Types[vs.Values[i]]; ok && tv.Value != nil {
								return constToGround(tv.Value), true
							}
						}
						g.fail("global %s has no constant value", name)
					}
				}
			}
		}
	}
	return nil, false
}

func constToGround(v constant.Value) interface{} {
	switch v.Kind() {
	case constant.Bool:
		return constant.BoolVal(v)
	case constant.String:
		return constant.StringVal(v)
	case constant.Int:
		if i, ok := constant.Int64Val(v); ok {
			return i
		}
	}
	panic(groundErr("unsupported constant " + v.String()))
}

func (g *groundEval) eval(e Expr) interface{} {
	g.steps++
	switch x := e.(type) {
	case *EInt:
		n, err := strconv.ParseInt(x.Val, 0, 64)
		if err != nil {
			g.fail("integer literal %s", x.Val)
		}
		return n
	case *EStr:
		return x.Val
	case *EIdent:
		if v, ok := g.vars[x.Name]; ok {
			return v
		}
		switch x.Name {
		case "true":
			return true
		case "false":
			return false
		}
		if v, ok := g.global(x.Name); ok {
			return v
		}
		g.fail("unknown identifier %s", x.Name)
	case *EUnary:
		v := g.eval(x.X)
		switch x.Op {
		case "!":
			return !v.(bool)
		case "-":
			return -v.(int64)
		}
	case *EBinary:
		switch x.Op {
		case "&&":
			return g.eval(x.X).(bool) && g.eval(x.Y).(bool)
		case "||":
			return g.eval(x.X).(bool) || g.eval(x.Y).(bool)
		case "==>":
			return !g.eval(x.X).(bool) || g.eval(x.Y).(bool)
		case "<==>":
			return g.eval(x.X).(bool) == g.eval(x.Y).(bool)
		}
		a, b := g.eval(x.X), g.eval(x.Y)
		switch x.Op {
		case "==":
			return a == b
		case "!=":
			return a != b
		}
		ai, ok1 := a.(int64)
		bi, ok2 := b.(int64)
		if ok1 && ok2 {
			switch x.Op {
			case "<":
				return ai < bi
			case "<=":
				return ai <= bi
			case ">":
				return ai > bi
			case ">=":
				return ai >= bi
			case "+":
				return ai + bi
			case "-":
				return ai - bi
			case "*":
				return ai * bi
			}
		}
		g.fail("unsupported operation %s", exprString(x))
	case *ECall:
		id, ok := x.Fun.(*EIdent)
		if !ok {
			g.fail("unsupported call %s", exprString(x))
		}
		arg := func(i int) interface{} { return g.eval(x.Args[i]) }
		switch id.Name {
		case "len":
			return int64(len(arg(0).(string)))
		case "splitCount": // len(strings.Split(s, sep))
			return int64(len(g.split(arg(0).(string), arg(1).(string))))
		case "splitPart": // strings.Split(s, sep)[i]
			parts := g.split(arg(0).(string), arg(1).(string))
			i := arg(2).(int64)
			if i < 0 || i >= int64(len(parts)) {
				g.fail("splitPart index %d out of range", i)
			}
			return parts[i]
		case "decimalInt64": // strconv.ParseInt(s, 10, 64) succeeds
			_, err := strconv.ParseInt(arg(0).(string), 10, 64)
			return err == nil
		case "decimalValue":
			v, err := strconv.ParseInt(arg(0).(string), 10, 64)
			if err != nil {
				return int64(-1) << 63 // unspecified on non-numbers (the well-formedness lemma excludes them)
			}
			return v
		case "canonicalDecimal": // the string is the canonical decimal rendering of an unsigned 64-bit number
			s := arg(0).(string)
			v, err := strconv.ParseUint(s, 10, 64)
			return err == nil && strconv.FormatUint(v, 10) == s
		}
		g.fail("function %s has no native definition", id.Name)
	case *EQuant:
		return g.quant(x)
	case *ECond:
		if g.eval(x.C).(bool) {
			return g.eval(x.A)
		}
		return g.eval(x.B)
	}
	g.fail("unsupported expression %s", exprString(e))
	return nil
}

// conjuncts of a && b && c
func conjuncts(e Expr) []Expr {
	if b, ok := e.(*EBinary); ok && b.Op == "&&" {
		return append(conjuncts(b.X), conjuncts(b.Y)...)
	}
	return []Expr{e}
}

func mentions(e Expr, name string) bool {
	for _, n := range identNames(e) {
		if n == name {
			return true
		}
	}
	return false
}

func identNames(e Expr) []string {
	var out []string
	var walk func(e Expr)
	walk = func(e Expr) {
		switch x := e.(type) {
		case *EIdent:
			out = append(out, x.Name)
		case *EUnary:
			walk(x.X)
		case *EBinary:
			walk(x.X)
			walk(x.Y)
		case *ECall:
			for _, a := range x.Args {
				walk(a)
			}
		case *EIndex:
			walk(x.X)
			walk(x.I)
		case *ESel:
			walk(x.X)
		case *EQuant:
			walk(x.Body)
		case *ECond:
			walk(x.C)
			walk(x.A)
			walk(x.B)
		}
	}
	walk(e)
	return out
}

func renameIdent(e Expr, from, to string) Expr {
	switch x := e.(type) {
	case *EIdent:
		if x.Name == from {
			return &EIdent{Name: to}
		}
		return x
	case *EUnary:
		return &EUnary{Op: x.Op, X: renameIdent(x.X, from, to)}
	case *EBinary:
		return &EBinary{Op: x.Op, X: renameIdent(x.X, from, to), Y: renameIdent(x.Y, from, to)}
	case *ECall:
		var as []Expr
		for _, a := range x.Args {
			as = append(as, renameIdent(a, from, to))
		}
		return &ECall{Fun: x.Fun, Args: as}
	}
	return e
}

// quant enumerates a bounded quantifier. Supported shapes:
//
//	forall i int :: lo <= i && i < hi [&& more] ==> body          (exists: lo <= i && i < hi && body)
//	forall i int, j int :: lo <= i && i < j && j < hi ==> f(i) != f(j)   (decided by a duplicate search)
func (g *groundEval) quant(x *EQuant) interface{} {
	var rng, body Expr
	if x.Forall {
		b, ok := x.Body.(*EBinary)
		if !ok || b.Op != "==>" {
			g.fail("forall needs the shape `range ==> body`")
		}
		rng, body = b.X, b.Y
	} else {
		rng, body = x.Body, &EIdent{Name: "true"}
	}
	cs := conjuncts(rng)
	bounds := func(v string, others []string) (lo, hi int64, rest []Expr, ok bool) {
		haveLo, haveHi := false, false
		for _, c := range cs {
			b, isB := c.(*EBinary)
			used := false
			if isB {
				free := func(e Expr) bool {
					if mentions(e, v) {
						return false
					}
					for _, o := range others {
						if mentions(e, o) {
							return false
						}
					}
					return true
				}
				isV := func(e Expr) bool { id, ok := e.(*EIdent); return ok && id.Name == v }
				switch {
				case (b.Op == "<=" || b.Op == "<") && isV(b.Y) && free(b.X) && !haveLo:
					lo = g.eval(b.X).(int64)
					if b.Op == "<" {
						lo++
					}
					haveLo, used = true, true
				case (b.Op == "<=" || b.Op == "<") && isV(b.X) && free(b.Y) && !haveHi:
					hi = g.eval(b.Y).(int64)
					if b.Op == "<=" {
						hi++
					}
					haveHi, used = true, true
				}
			}
			if !used {
				rest = append(rest, c)
			}
		}
		return lo, hi, rest, haveLo && haveHi
	}
	if len(x.Vars) == 2 && x.Forall {
		i, j := x.Vars[0].Name, x.Vars[1].Name
		// lo <= i && i < j && j < hi ==> f(i) != f(j)
		if len(cs) == 3 {
			c0, ok0 := cs[0].(*EBinary)
			c1, ok1 := cs[1].(*EBinary)
			c2, ok2 := cs[2].(*EBinary)
			ne, ok3 := body.(*EBinary)
			isV := func(e Expr, v string) bool { id, ok := e.(*EIdent); return ok && id.Name == v }
			if ok0 && ok1 && ok2 && ok3 && ne.Op == "!=" && c0.Op == "<=" && isV(c0.Y, i) && !mentions(c0.X, i) && !mentions(c0.X, j) &&
				c1.Op == "<" && isV(c1.X, i) && isV(c1.Y, j) && c2.Op == "<" && isV(c2.X, j) && !mentions(c2.Y, i) && !mentions(c2.Y, j) &&
				!mentions(ne.X, j) && exprString(renameIdent(ne.X, i, j)) == exprString(ne.Y) {
				lo, hi := g.eval(c0.X).(int64), g.eval(c2.Y).(int64)
				seen := map[interface{}]int64{}
				for k := lo; k < hi; k++ {
					g.vars[i] = k
					v := g.eval(ne.X)
					if p, dup := seen[v]; dup {
						g.witness = fmt.Sprintf("%s=%d %s=%d (both give %v)", i, p, j, k, v)
						delete(g.vars, i)
						return false
					}
					seen[v] = k
				}
				delete(g.vars, i)
				return true
			}
		}
		g.fail("unsupported two-variable quantifier (only the injectivity shape `lo <= i && i < j && j < hi ==> f(i) != f(j)` is decided)")
	}
	if len(x.Vars) != 1 {
		g.fail("unsupported quantifier")
	}
	v := x.Vars[0].Name
	lo, hi, rest, ok := bounds(v, nil)
	if !ok {
		g.fail("quantifier over %s has no literal bounds", v)
	}
	if hi-lo > 50_000_000 {
		g.fail("range of %s too large to enumerate (%d)", v, hi-lo)
	}
	defer delete(g.vars, v)
	for k := lo; k < hi; k++ {
		g.vars[v] = k
		in := true
		for _, r := range rest {
			if !g.eval(r).(bool) {
				in = false
				break
			}
		}
		if !in {
			continue
		}
		b := g.eval(body).(bool)
		if x.Forall && !b {
			if g.witness == "" {
				g.witness = fmt.Sprintf("%s=%d", v, k)
			}
			return false
		}
		if !x.Forall && b {
			return true
		}
	}
	return x.Forall
}
