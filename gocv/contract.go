package main

import (
	"bufio"
	"fmt"
	"hash/fnv"
	"os"
	"regexp"
	"strconv"
	"strings"
)

type Clause struct {
	Kind    string // requires ensures invariant assertcall axiom lemma
	Labels  []string
	Text    string
	E       Expr
	Trusted bool   // assumed at call sites, not checked against the body (reported as trusted)
	Loop    int    // for invariant
	Callee  string // for assertcall: suffix of callee key
	File    string
	Line    int
}

func (c *Clause) Name() string {
	if len(c.Labels) > 0 {
		return strings.Join(c.Labels, ",")
	}
	return fmt.Sprintf("%s@%d", c.Kind, c.Line)
}

// HasProp reports whether the clause is labelled for property p (or unlabelled).
func (c *Clause) HasProp(p string) bool {
	if p == "" || len(c.Labels) == 0 {
		return true
	}
	any := false
	for _, l := range c.Labels {
		if strings.HasPrefix(l, "C") && len(l) >= 3 {
			any = true
			if strings.HasPrefix(l, p+".") || l == p {
				return true
			}
		}
	}
	return !any
}

// ErrOnly: `erroronly[labels] callee ... [| expr]` - the function returns a non-nil error only if one of the listed
// callees returned a non-nil error before, or expr holds.
type ErrOnly struct {
	Clause  *Clause
	Callees []string
}

type GhostAssign struct {
	Var  string
	Text string
	E    Expr
	Line int
}

type Contract struct {
	Key         string
	PkgPath     string // package whose scope resolves names
	Requires    []*Clause
	Ensures     []*Clause
	LoopInv     map[int][]*Clause
	AssertCall  []*Clause
	ErrorOnly   []*ErrOnly
	Prologue    []*GhostAssign
	Epilogue    []*GhostAssign
	Modifies    []string // heap-name patterns; nil = inferred
	HasMod      bool
	Pure        bool
	Assumed     bool
	MayPanic    bool
	NoSafety    bool
	SafetyProps []string
	SafetyKinds []string
	Params      []string // optional explicit parameter names (externals)
	Behavior    string   // name of the behaviour (case) this contract describes; "" for a plain contract
	Target      string   // function key (Key is Target#Behavior for behaviours)
	FvTargets   []string // dynamic calls are restricted (and checked) to callees whose key contains one of these
	File        string
	Line        int
}

type SpecFunc struct {
	Name    string
	Params  []Binder
	Result  string
	Body    Expr // nil for ghost (uninterpreted) functions
	Text    string
	PkgPath string
}

type GhostVar struct {
	Name    string
	Type    string
	PkgPath string
	Init    Expr
}

type Spec struct {
	Contracts   map[string]*Contract
	Behaviors   map[string][]*Contract // function key -> its behaviours
	SpecFuncs   map[string]*SpecFunc
	GhostVars   map[string]*GhostVar
	Axioms      []*Clause
	AxiomPkg    map[*Clause]string
	OrderAccept map[string]string
	Lemmas      []*Clause
	LemmaPkg    map[*Clause]string
	Imports     map[string]map[string]string // pkgPath -> alias -> path
	Files       []string
}

func NewSpec() *Spec {
	return &Spec{
		Contracts: map[string]*Contract{}, Behaviors: map[string][]*Contract{}, SpecFuncs: map[string]*SpecFunc{}, GhostVars: map[string]*GhostVar{},
		AxiomPkg: map[*Clause]string{}, LemmaPkg: map[*Clause]string{}, Imports: map[string]map[string]string{}, OrderAccept: map[string]string{},
	}
}

var labelRe = regexp.MustCompile(`^\[([^\]]*)\]\s*`)
var clauseKeywords = map[string]bool{"func": true, "spec": true, "ghost": true, "axiom": true, "import": true, "requires": true,
	"ensures": true, "loop": true, "assert@call": true, "prologue": true, "epilogue": true, "modifies": true, "pure": true,
	"assumed": true, "trusted": true, "maypanic": true, "lemma": true, "ground": true, "roundtrip": true, "jsoncompat": true, "jsonoverwrite": true, "tables": true, "orderfree": true, "secretflow": true, "nocall": true, "noeq": true, "recovers": true, "orderaccept": true, "erroronly": true, "nosafety": true, "safetykinds": true, "params": true, "safety": true, "fvtargets": true}

func splitLabels(rest string) ([]string, string) {
	if m := labelRe.FindStringSubmatch(rest); m != nil {
		var ls []string
		for _, l := range strings.Split(m[1], ",") {
			l = strings.TrimSpace(l)
			if l != "" {
				ls = append(ls, l)
			}
		}
		return ls, rest[len(m[0]):]
	}
	return nil, rest
}

// qualify turns "(*T).M" / "Name" into a full key in package pkgPath. Targets that already
// contain a '/' or a known dotted package qualifier are left as they are.
func qualifyTarget(t, pkgPath string) string {
	t = strings.TrimSpace(t)
	if strings.HasPrefix(t, "(") {
		end := strings.Index(t, ")")
		recv := t[1:end]
		rest := t[end+1:]
		star := ""
		if strings.HasPrefix(recv, "*") {
			star = "*"
			recv = recv[1:]
		}
		if !strings.Contains(recv, ".") && pkgPath != "" {
			recv = pkgPath + "." + recv
		}
		return "(" + star + recv + ")" + rest
	}
	if !strings.Contains(t, ".") && pkgPath != "" {
		return pkgPath + "." + t
	}
	return t
}

// ParseSpecFile reads //@ lines from path. pkgPath is the Go package the file belongs to
// ("" for library spec files, whose targets must be fully qualified).
func (s *Spec) ParseSpecFile(path, pkgPath string) error {
	f, err := os.Open(path)
	if err != nil {
		return err
	}
	defer f.Close()
	s.Files = append(s.Files, path)
	sc := bufio.NewScanner(f)
	sc.Buffer(make([]byte, 1<<20), 1<<20)
	type rawLine struct {
		text string
		line int
	}
	var lines []rawLine
	ln := 0
	for sc.Scan() {
		ln++
		t := strings.TrimSpace(sc.Text())
		if !strings.HasPrefix(t, "//@") {
			continue
		}
		body := strings.TrimSpace(t[3:])
		if body == "" {
			continue
		}
		// strip trailing "// comment" only when preceded by two spaces (simple convention)
		if i := strings.Index(body, "  //"); i >= 0 {
			body = strings.TrimSpace(body[:i])
		}
		first := body
		if i := strings.IndexAny(body, " \t["); i >= 0 {
			first = body[:i]
		}
		if clauseKeywords[first] || len(lines) == 0 {
			lines = append(lines, rawLine{body, ln})
		} else {
			lines[len(lines)-1].text += " " + body
		}
	}
	var cur *Contract
	for _, rl := range lines {
		body := rl.text
		kw := body
		rest := ""
		if i := strings.IndexAny(body, " \t["); i >= 0 {
			kw = body[:i]
			rest = strings.TrimSpace(body[i:])
			if body[i] == '[' {
				rest = strings.TrimSpace(body[i:])
			}
		}
		fail := func(f string, a ...interface{}) error {
			return fmt.Errorf("%s:%d: %s", path, rl.line, fmt.Sprintf(f, a...))
		}
		mkClause := func(kind, rest string) (*Clause, error) {
			labels, text := splitLabels(rest)
			e, err := ParseExpr(text)
			if err != nil {
				return nil, fail("%v", err)
			}
			return &Clause{Kind: kind, Labels: labels, Text: text, E: e, File: path, Line: rl.line}, nil
		}
		switch kw {
		case "import":
			parts := strings.Fields(rest)
			if len(parts) != 2 {
				return fail("import alias \"path\"")
			}
			if s.Imports[pkgPath] == nil {
				s.Imports[pkgPath] = map[string]string{}
			}
			s.Imports[pkgPath][parts[0]] = strings.Trim(parts[1], "\"")
		case "func":
			behavior := ""
			if i := strings.Index(rest, " behavior "); i >= 0 {
				behavior = strings.TrimSpace(rest[i+len(" behavior "):])
				rest = strings.TrimSpace(rest[:i])
			}
			target := qualifyTarget(rest, pkgPath)
			key := target
			if behavior != "" {
				key = target + "#" + behavior
			}
			if _, dup := s.Contracts[key]; dup {
				return fail("duplicate contract for %s", key)
			}
			cur = &Contract{Key: key, Target: target, Behavior: behavior, PkgPath: pkgPath, LoopInv: map[int][]*Clause{}, File: path, Line: rl.line}
			if behavior != "" {
				s.Behaviors[target] = append(s.Behaviors[target], cur)
			}
			s.Contracts[key] = cur
		case "ghost", "spec":
			// ghost var $n T [= e] | ghost func name(a T) R | spec func name(a T) R = e
			if strings.HasPrefix(rest, "var ") {
				r := strings.TrimSpace(rest[4:])
				var init Expr
				if i := strings.Index(r, "="); i >= 0 {
					e, err := ParseExpr(strings.TrimSpace(r[i+1:]))
					if err != nil {
						return fail("%v", err)
					}
					init = e
					r = strings.TrimSpace(r[:i])
				}
				parts := strings.SplitN(r, " ", 2)
				if len(parts) != 2 {
					return fail("ghost var $name type")
				}
				s.GhostVars[parts[0]] = &GhostVar{Name: parts[0], Type: strings.TrimSpace(parts[1]), PkgPath: pkgPath, Init: init}
			} else if strings.HasPrefix(rest, "func ") {
				r := strings.TrimSpace(rest[5:])
				op := strings.Index(r, "(")
				if op < 0 {
					return fail("bad spec func")
				}
				name := strings.TrimSpace(r[:op])
				// find matching paren
				depth, cp := 0, -1
				for i := op; i < len(r); i++ {
					if r[i] == '(' {
						depth++
					} else if r[i] == ')' {
						depth--
						if depth == 0 {
							cp = i
							break
						}
					}
				}
				if cp < 0 {
					return fail("bad spec func params")
				}
				var params []Binder
				ptxt := strings.TrimSpace(r[op+1 : cp])
				if ptxt != "" {
					for _, p := range splitTop(ptxt, ',') {
						p = strings.TrimSpace(p)
						i := strings.IndexAny(p, " \t")
						if i < 0 {
							return fail("param needs a type: %q", p)
						}
						params = append(params, Binder{p[:i], strings.TrimSpace(p[i:])})
					}
				}
				after := strings.TrimSpace(r[cp+1:])
				sf := &SpecFunc{Name: name, Params: params, PkgPath: pkgPath}
				if kw == "spec" {
					i := strings.Index(after, "=")
					if i < 0 {
						return fail("spec func needs = body")
					}
					sf.Result = strings.TrimSpace(after[:i])
					sf.Text = strings.TrimSpace(after[i+1:])
					e, err := ParseExpr(sf.Text)
					if err != nil {
						return fail("%v", err)
					}
					sf.Body = e
				} else {
					sf.Result = after
				}
				if _, dup := s.SpecFuncs[name]; dup {
					return fail("duplicate spec/ghost func %s", name)
				}
				s.SpecFuncs[name] = sf
			} else {
				return fail("bad ghost/spec directive")
			}
		case "axiom":
			c, err := mkClause("axiom", rest)
			if err != nil {
				return err
			}
			s.Axioms = append(s.Axioms, c)
			s.AxiomPkg[c] = pkgPath
		case "lemma":
			c, err := mkClause("lemma", rest)
			if err != nil {
				return err
			}
			s.Lemmas = append(s.Lemmas, c)
			s.LemmaPkg[c] = pkgPath
		case "orderaccept":
			// orderaccept <function>#<ordinal> <reason>
			parts := strings.SplitN(strings.TrimSpace(rest), " ", 2)
			if len(parts) != 2 {
				return fail("orderaccept <function>#<ordinal> <reason>")
			}
			s.OrderAccept[parts[0]] = strings.TrimSpace(parts[1])
		case "roundtrip", "jsoncompat", "jsonoverwrite", "tables", "orderfree", "secretflow", "nocall", "noeq", "recovers":
			// JSON judgements over the type declarations (jsonrt.go)
			labels, text := splitLabels(rest)
			c := &Clause{Kind: kw, Labels: labels, Text: text, File: path, Line: rl.line}
			s.Lemmas = append(s.Lemmas, c)
			s.LemmaPkg[c] = pkgPath
		case "ground":
			// decided by evaluation (ground.go) under its label, available to the solver as an axiom
			c, err := mkClause("ground", rest)
			if err != nil {
				return err
			}
			s.Lemmas = append(s.Lemmas, c)
			s.LemmaPkg[c] = pkgPath
			s.Axioms = append(s.Axioms, c)
			s.AxiomPkg[c] = pkgPath
		default:
			if cur == nil {
				return fail("clause %q outside a func block", kw)
			}
			switch kw {
			case "requires", "ensures", "trusted":
				c, err := mkClause(kw, rest)
				if err != nil {
					return err
				}
				if kw == "trusted" {
					c.Kind = "ensures"
					c.Trusted = true
				}
				if kw == "requires" {
					cur.Requires = append(cur.Requires, c)
				} else {
					cur.Ensures = append(cur.Ensures, c)
				}
			case "loop":
				parts := strings.SplitN(rest, " ", 3)
				if len(parts) < 3 || !strings.HasPrefix(parts[1], "invariant") {
					return fail("loop N invariant[labels] expr")
				}
				n, err := strconv.Atoi(parts[0])
				if err != nil {
					return fail("bad loop ordinal")
				}
				r := strings.TrimPrefix(parts[1], "invariant") + " " + parts[2]
				c, err2 := mkClause("invariant", strings.TrimSpace(r))
				if err2 != nil {
					return err2
				}
				c.Loop = n
				cur.LoopInv[n] = append(cur.LoopInv[n], c)
			case "erroronly":
				labels, text := splitLabels(rest)
				calleesText, extra := text, "false"
				if i := strings.Index(text, "|"); i >= 0 {
					calleesText, extra = text[:i], strings.TrimSpace(text[i+1:])
				}
				ex, err := ParseExpr(extra)
				if err != nil {
					return fail("%v", err)
				}
				cl := &Clause{Kind: "erroronly", Labels: labels, Text: text, E: ex, File: path, Line: rl.line}
				cur.ErrorOnly = append(cur.ErrorOnly, &ErrOnly{Clause: cl, Callees: strings.Fields(calleesText)})
			case "assert@call":
				// assert@call callee[labels] expr
				i := strings.IndexAny(rest, " \t[")
				if i < 0 {
					return fail("assert@call callee expr")
				}
				callee := rest[:i]
				site := 0 // callee#N: only the N-th call site of the callee in source order
				if j := strings.Index(callee, "#"); j >= 0 {
					fmt.Sscan(callee[j+1:], &site)
					callee = callee[:j]
				}
				c, err := mkClause("assertcall", strings.TrimSpace(rest[i:]))
				if c != nil {
					c.Loop = site
				}
				if err != nil {
					return err
				}
				c.Callee = callee
				cur.AssertCall = append(cur.AssertCall, c)
			case "prologue", "epilogue":
				i := strings.Index(rest, "=")
				if i < 0 {
					return fail("%s $g = expr", kw)
				}
				e, err := ParseExpr(strings.TrimSpace(rest[i+1:]))
				if err != nil {
					return fail("%v", err)
				}
				ga := &GhostAssign{Var: strings.TrimSpace(rest[:i]), Text: rest, E: e, Line: rl.line}
				if kw == "prologue" {
					cur.Prologue = append(cur.Prologue, ga)
				} else {
					cur.Epilogue = append(cur.Epilogue, ga)
				}
			case "modifies":
				cur.HasMod = true
				for _, m := range splitTop(rest, ',') {
					m = strings.TrimSpace(m)
					if m != "" {
						cur.Modifies = append(cur.Modifies, m)
					}
				}
			case "pure":
				cur.Pure = true
				cur.HasMod = true
			case "assumed":
				cur.Assumed = true
			case "maypanic":
				cur.MayPanic = true
			case "nosafety":
				cur.NoSafety = true
			case "safety":
				for _, m := range strings.Split(rest, ",") {
					if m = strings.TrimSpace(m); m != "" {
						cur.SafetyProps = append(cur.SafetyProps, m)
					}
				}
			case "safetykinds":
				// only these kinds of runtime faults are obliged (substrings of the obligation text, e.g. "type assertion")
				for _, m := range strings.Split(rest, ",") {
					if m = strings.TrimSpace(m); m != "" {
						cur.SafetyKinds = append(cur.SafetyKinds, m)
					}
				}
			case "params":
				cur.Params = strings.Fields(strings.ReplaceAll(rest, ",", " "))
			case "fvtargets":
				cur.FvTargets = strings.Fields(strings.ReplaceAll(rest, ",", " "))
			default:
				return fail("unknown clause %q", kw)
			}
		}
	}
	return nil
}

func splitTop(s string, sep byte) []string {
	var out []string
	depth := 0
	start := 0
	for i := 0; i < len(s); i++ {
		switch s[i] {
		case '(', '[', '{':
			depth++
		case ')', ']', '}':
			depth--
		default:
			if s[i] == sep && depth == 0 {
				out = append(out, s[start:i])
				start = i + 1
			}
		}
	}
	out = append(out, s[start:])
	return out
}

// unlabelledName names an unlabelled postcondition by its text, so that the name survives edits elsewhere in the file.
func unlabelledName(c *Clause) string {
	h := fnv.New32a()
	h.Write([]byte(strings.Join(strings.Fields(c.Text), " ")))
	return fmt.Sprintf("ensures#%06x", h.Sum32()&0xffffff)
}
