package main

import (
	"fmt"
	"go/types"
	"reflect"
	"sort"
	"strings"
)

// JSON round-trip and compatibility judgements, derived by structural induction over the real type
// declarations (go/types) on every run.
//
//	RT(T):  for every value v of T (strings valid UTF-8, no NaN/Inf), decoding json.Marshal(v) into a zero
//	        value of T yields a value equal to v, field by field, including nil-ness of slices and maps.
//	COMPAT(T1 -> T2): decoding json.Marshal(v1) into a zero T2 preserves every field of v1 (T2 has a field
//	        of the same JSON name and an equally-shaped type for each field of T1).
//
// The encoding/json semantics used by the rules is the trusted part (stated in DESIGN.md): exported fields
// only; `json:"-"` drops; `omitempty` omits false, 0, nil, "" and EMPTY slices/maps (so an empty non-nil slice or
// map comes back nil); []byte is base64 text with nil <-> null and empty <-> ""; nil slices/maps/pointers
// are null; map keys must be strings or integers; interface values lose their dynamic type; decoding matches
// names case-insensitively; types with their own (Un)MarshalJSON are accepted only if listed as trusted or
// carrying contracts labelled json.

type jsonJudge struct {
	P       *Prog
	trusted map[string]string // type string -> what is assumed
	used    map[string]bool
	steps   int
}

func newJSONJudge(P *Prog) *jsonJudge {
	return &jsonJudge{P: P, used: map[string]bool{}, trusted: map[string]string{
		"time.Time": "time.Time round-trips to the same instant (RFC 3339 with nanoseconds; monotonic reading and location name dropped)",
		"github.com/lidofinance/dc4bc/fsm/types/requests.FSMError": "FSMError encodes as the JSON string of ErrorMsg and decodes it back (its MarshalJSON/UnmarshalJSON delegate to encoding/json on a string)",
	}}
}

func hasMethod(t types.Type, name string) bool {
	for _, tt := range []types.Type{t, types.NewPointer(t)} {
		ms := types.NewMethodSet(tt)
		for i := 0; i < ms.Len(); i++ {
			if ms.At(i).Obj().Name() == name {
				return true
			}
		}
	}
	return false
}

type jsonField struct {
	name      string // effective JSON name
	goName    string
	typ       types.Type
	omitempty bool
}

// jsonFields lists the fields encoding/json uses for struct type st, or an error describing a dropped field.
func (j *jsonJudge) jsonFields(st *types.Struct, path string) ([]jsonField, string) {
	var out []jsonField
	for i := 0; i < st.NumFields(); i++ {
		f := st.Field(i)
		tag := reflect.StructTag(st.Tag(i)).Get("json")
		if tag == "-" {
			return nil, fmt.Sprintf("%s.%s is tagged json:\"-\" and is dropped", path, f.Name())
		}
		if !f.Exported() {
			if f.Embedded() {
				// an embedded unexported struct type still contributes its exported fields
				if est, ok := types.Unalias(f.Type()).Underlying().(*types.Struct); ok {
					sub, why := j.jsonFields(est, path+"."+f.Name())
					if why != "" {
						return nil, why
					}
					out = append(out, sub...)
					continue
				}
			}
			return nil, fmt.Sprintf("%s.%s is unexported and is dropped", path, f.Name())
		}
		name := f.Name()
		omit := false
		if tag != "" {
			parts := strings.Split(tag, ",")
			if parts[0] != "" {
				name = parts[0]
			}
			for _, o := range parts[1:] {
				if o == "omitempty" {
					omit = true
				}
			}
		}
		if f.Embedded() && tag == "" {
			t := types.Unalias(f.Type())
			if p, ok := t.Underlying().(*types.Pointer); ok {
				t = types.Unalias(p.Elem())
			}
			if est, ok := t.Underlying().(*types.Struct); ok && !hasMethod(t, "MarshalJSON") {
				sub, why := j.jsonFields(est, path+"."+f.Name())
				if why != "" {
					return nil, why
				}
				out = append(out, sub...)
				continue
			}
		}
		out = append(out, jsonField{name: name, goName: f.Name(), typ: f.Type(), omitempty: omit})
	}
	seen := map[string]string{}
	for _, f := range out {
		k := strings.ToLower(f.name)
		if prev, dup := seen[k]; dup {
			return nil, fmt.Sprintf("%s: fields %s and %s have JSON names that differ only in case (%q): decoding cannot tell them apart", path, prev, f.goName, f.name)
		}
		seen[k] = f.goName
	}
	return out, ""
}

// RT returns "" if the judgement holds, else the reason (naming the offending field path).
func (j *jsonJudge) RT(t types.Type, path string, seen map[string]bool) string {
	j.steps++
	t = types.Unalias(t)
	ts := typeStr(t)
	if why, ok := j.trusted[ts]; ok {
		j.used[ts+": "+why] = true
		return ""
	}
	if _, named := t.(*types.Named); named {
		for _, m := range []string{"MarshalJSON", "UnmarshalJSON", "MarshalText", "UnmarshalText"} {
			if hasMethod(t, m) {
				return fmt.Sprintf("%s: type %s has its own %s, which is not in the trusted list", path, ts, m)
			}
		}
		if seen[ts] {
			return ""
		}
		seen[ts] = true
		defer delete(seen, ts)
	}
	switch u := t.Underlying().(type) {
	case *types.Basic:
		switch {
		case u.Info()&(types.IsBoolean|types.IsInteger|types.IsFloat|types.IsString) != 0:
			return ""
		}
		return fmt.Sprintf("%s: kind %s is not encodable", path, u.Name())
	case *types.Pointer:
		return j.RT(u.Elem(), path, seen)
	case *types.Slice:
		return j.RT(u.Elem(), path+"[]", seen)
	case *types.Array:
		return j.RT(u.Elem(), path+"[]", seen)
	case *types.Map:
		kb, ok := types.Unalias(u.Key()).Underlying().(*types.Basic)
		if !ok || kb.Info()&(types.IsString|types.IsInteger) == 0 {
			return fmt.Sprintf("%s: map key type %s is not a string or an integer", path, u.Key())
		}
		return j.RT(u.Elem(), path+"[k]", seen)
	case *types.Interface:
		return fmt.Sprintf("%s: interface-typed value: the dynamic type is lost (decodes as map/slice/float64/string)", path)
	case *types.Struct:
		fs, why := j.jsonFields(u, path)
		if why != "" {
			return why
		}
		for _, f := range fs {
			if f.omitempty {
				switch types.Unalias(f.typ).Underlying().(type) {
				case *types.Slice, *types.Map:
					return fmt.Sprintf("%s.%s is omitempty: an empty non-nil value is omitted and decodes as nil", path, f.goName)
				case *types.Interface:
					return fmt.Sprintf("%s.%s is an omitempty interface", path, f.goName)
				}
			}
			if why := j.RT(f.typ, path+"."+f.goName, seen); why != "" {
				return why
			}
		}
		return ""
	}
	return fmt.Sprintf("%s: type %s is not encodable", path, ts)
}

// Compat: every field of t1 has a same-named, same-shaped field in t2.
func (j *jsonJudge) Compat(t1, t2 types.Type, path string, depth int) string {
	j.steps++
	if depth > 12 {
		return ""
	}
	t1, t2 = types.Unalias(t1), types.Unalias(t2)
	if _, ok := j.trusted[typeStr(t1)]; ok {
		if typeStr(t1) == typeStr(t2) {
			return ""
		}
		return fmt.Sprintf("%s: %s is decoded as %s", path, t1, t2)
	}
	u1, u2 := t1.Underlying(), t2.Underlying()
	switch a := u1.(type) {
	case *types.Basic:
		b, ok := u2.(*types.Basic)
		if !ok {
			return fmt.Sprintf("%s: %s is decoded as %s", path, t1, t2)
		}
		sameClass := func(x, y *types.Basic) bool {
			m := types.IsBoolean | types.IsString | types.IsFloat
			if x.Info()&m != y.Info()&m {
				return false
			}
			if x.Info()&types.IsInteger != 0 {
				// the target must hold every source value
				if y.Info()&types.IsInteger == 0 {
					return false
				}
				size := func(k *types.Basic) int {
					switch k.Kind() {
					case types.Int8, types.Uint8:
						return 8
					case types.Int16, types.Uint16:
						return 16
					case types.Int32, types.Uint32:
						return 32
					}
					return 64
				}
				if (x.Info()&types.IsUnsigned != 0) != (y.Info()&types.IsUnsigned != 0) || size(y) < size(x) {
					return false
				}
			}
			return true
		}
		if !sameClass(a, b) {
			return fmt.Sprintf("%s: %s is decoded as %s", path, t1, t2)
		}
		return ""
	case *types.Pointer:
		if b, ok := u2.(*types.Pointer); ok {
			return j.Compat(a.Elem(), b.Elem(), path, depth+1)
		}
		return j.Compat(a.Elem(), t2, path, depth+1)
	case *types.Slice:
		b, ok := u2.(*types.Slice)
		if !ok {
			return fmt.Sprintf("%s: %s is decoded as %s", path, t1, t2)
		}
		return j.Compat(a.Elem(), b.Elem(), path+"[]", depth+1)
	case *types.Array:
		b, ok := u2.(*types.Array)
		if !ok || b.Len() != a.Len() {
			return fmt.Sprintf("%s: %s is decoded as %s", path, t1, t2)
		}
		return j.Compat(a.Elem(), b.Elem(), path+"[]", depth+1)
	case *types.Map:
		b, ok := u2.(*types.Map)
		if !ok {
			return fmt.Sprintf("%s: %s is decoded as %s", path, t1, t2)
		}
		if why := j.Compat(a.Key(), b.Key(), path+"[key]", depth+1); why != "" {
			return why
		}
		return j.Compat(a.Elem(), b.Elem(), path+"[k]", depth+1)
	case *types.Struct:
		b, ok := u2.(*types.Struct)
		if !ok {
			return fmt.Sprintf("%s: %s is decoded as %s", path, t1, t2)
		}
		f1, why := j.jsonFields(a, path)
		if why != "" {
			return why
		}
		f2, why := j.jsonFields(b, path+"(target)")
		if why != "" {
			return why
		}
		byName := map[string]jsonField{}
		for _, f := range f2 {
			byName[strings.ToLower(f.name)] = f
		}
		for _, f := range f1 {
			g, ok := byName[strings.ToLower(f.name)]
			if !ok {
				return fmt.Sprintf("%s.%s (JSON name %q) has no counterpart in %s and is lost", path, f.goName, f.name, t2)
			}
			if f.omitempty {
				switch types.Unalias(f.typ).Underlying().(type) {
				case *types.Slice, *types.Map:
					return fmt.Sprintf("%s.%s is omitempty: an empty non-nil value is omitted and decodes as nil", path, f.goName)
				}
			}
			if why := j.Compat(f.typ, g.typ, path+"."+f.goName, depth+1); why != "" {
				return why
			}
		}
		return ""
	case *types.Interface:
		return fmt.Sprintf("%s: interface-typed value", path)
	}
	return fmt.Sprintf("%s: unsupported type %s", path, t1)
}

// Overwrite: decoding an encoded value of t into a target that already holds another value of t leaves nothing of the
// old value behind (the reader may reuse one variable for every record). Holds when every field is always emitted
// (no omitempty) and its decoding replaces the old content: basic types, []byte (null gives nil, a string gives a
// new slice), nested structs of such fields. Maps are merged into, pointers and slice elements are decoded in
// place, interfaces keep their dynamic value's fields: all refused. Returns "" or the reason.
func (j *jsonJudge) Overwrite(t types.Type, path string, depth int) string {
	j.steps++
	if depth > 8 {
		return path + ": nesting too deep to judge"
	}
	t = types.Unalias(t)
	if hasMethod(t, "UnmarshalJSON") || hasMethod(t, "MarshalJSON") {
		return path + ": custom JSON methods are not judged"
	}
	switch u := t.Underlying().(type) {
	case *types.Basic:
		return ""
	case *types.Slice:
		if b, ok := types.Unalias(u.Elem()).Underlying().(*types.Basic); ok && b.Kind() == types.Uint8 {
			return ""
		}
		return path + ": a slice is decoded element by element into the old backing array"
	case *types.Array:
		return j.Overwrite(u.Elem(), path+"[]", depth+1)
	case *types.Struct:
		fs, why := j.jsonFields(u, path)
		if why != "" {
			return why
		}
		for _, f := range fs {
			if f.omitempty {
				return fmt.Sprintf("%s.%s is omitempty: an empty value is left out of the record, and decoding the record into a reused variable keeps the field of the previous record", path, f.goName)
			}
			if why := j.Overwrite(f.typ, path+"."+f.goName, depth+1); why != "" {
				return why
			}
		}
		return ""
	case *types.Map:
		return path + ": decoding merges into an existing map"
	case *types.Pointer:
		return path + ": decoding reuses the object an existing pointer refers to"
	}
	return path + ": " + typeStr(t) + " is not judged"
}

func (j *jsonJudge) usedTrusted() []string {
	var out []string
	for k := range j.used {
		out = append(out, "JSON judgement, trusted custom encoding: "+k)
	}
	sort.Strings(out)
	return out
}

// EvalJSONClause decides `roundtrip T` and `jsoncompat T1 -> T2` clauses.
func (P *Prog) EvalJSONClause(c *Clause, pkgPath string) (ok bool, why string, steps int, trusted []string, err error) {
	j := newJSONJudge(P)
	text := strings.TrimSpace(c.Text)
	if c.Kind == "jsonoverwrite" {
		t, e := P.resolveType(text, pkgPath)
		if e != nil {
			return false, "", 0, nil, fmt.Errorf("%s:%d: %v", c.File, c.Line, e)
		}
		why = j.Overwrite(t, typeStr(t), 0)
	} else if c.Kind == "roundtrip" {
		t, e := P.resolveType(text, pkgPath)
		if e != nil {
			return false, "", 0, nil, fmt.Errorf("%s:%d: %v", c.File, c.Line, e)
		}
		why = j.RT(t, typeStr(t), map[string]bool{})
	} else {
		parts := strings.Split(text, "->")
		if len(parts) < 2 {
			return false, "", 0, nil, fmt.Errorf("%s:%d: jsoncompat T1 -> T2 [-> T3 ...]", c.File, c.Line)
		}
		var ts []types.Type
		for _, p := range parts {
			t, e := P.resolveType(strings.TrimSpace(p), pkgPath)
			if e != nil {
				return false, "", 0, nil, fmt.Errorf("%s:%d: %v", c.File, c.Line, e)
			}
			ts = append(ts, t)
		}
		for i := 0; i+1 < len(ts) && why == ""; i++ {
			why = j.Compat(ts[i], ts[i+1], typeStr(ts[i]), 0)
		}
	}
	return why == "", why, j.steps, j.usedTrusted(), nil
}

// jsonReplay builds a test that encodes and decodes witness values of the type (all slices and maps empty but
// non-nil, and all fields non-zero) and compares them with reflect.DeepEqual.
func (P *Prog) jsonReplay(c *Clause, pkgPath string) *ReplaySpec {
	if c.Kind != "roundtrip" && c.Kind != "jsonoverwrite" {
		return nil
	}
	t, err := P.resolveType(strings.TrimSpace(c.Text), pkgPath)
	if err != nil {
		return nil
	}
	// the test lives in the package of the contract file; the type is written relative to it
	pkg := P.PkgByPath[pkgPath]
	if pkg == nil {
		return nil
	}
	imports := map[string]string{}
	qual := func(p *types.Package) string {
		if p.Path() == pkgPath {
			return ""
		}
		alias := "p" + fmt.Sprint(len(imports))
		for a, path := range imports {
			if path == p.Path() {
				return a
			}
		}
		imports[alias] = p.Path()
		return alias
	}
	typeText := types.TypeString(t, qual)
	var imp strings.Builder
	for a, path := range imports {
		fmt.Fprintf(&imp, "\t%s %q\n", a, path)
	}
	src := fmt.Sprintf(`package %s

import (
	"encoding/json"
	"reflect"
	"testing"
	"time"
%s)

var _ = time.Now

func gocvFill(v reflect.Value, nonzero bool, depth int) {
	if depth > 8 {
		return
	}
	switch v.Kind() {
	case reflect.Ptr:
		if v.Type().Elem().Kind() == reflect.Struct || nonzero {
			v.Set(reflect.New(v.Type().Elem()))
			gocvFill(v.Elem(), nonzero, depth+1)
		}
	case reflect.Struct:
		if v.Type() == reflect.TypeOf(time.Time{}) {
			if nonzero {
				v.Set(reflect.ValueOf(time.Unix(1700000000, 0).UTC()))
			}
			return
		}
		for i := 0; i < v.NumField(); i++ {
			if v.Field(i).CanSet() {
				gocvFill(v.Field(i), nonzero, depth+1)
			}
		}
	case reflect.Slice:
		if nonzero {
			s := reflect.MakeSlice(v.Type(), 1, 1)
			gocvFill(s.Index(0), nonzero, depth+1)
			v.Set(s)
		} else {
			v.Set(reflect.MakeSlice(v.Type(), 0, 0))
		}
	case reflect.Map:
		m := reflect.MakeMap(v.Type())
		if nonzero {
			k := reflect.New(v.Type().Key()).Elem()
			gocvFill(k, true, depth+1)
			e := reflect.New(v.Type().Elem()).Elem()
			gocvFill(e, true, depth+1)
			m.SetMapIndex(k, e)
		}
		v.Set(m)
	case reflect.String:
		if nonzero {
			v.SetString("x")
		}
	case reflect.Bool:
		v.SetBool(nonzero)
	case reflect.Int, reflect.Int8, reflect.Int16, reflect.Int32, reflect.Int64:
		if nonzero {
			v.SetInt(7)
		}
	case reflect.Uint, reflect.Uint8, reflect.Uint16, reflect.Uint32, reflect.Uint64:
		if nonzero {
			v.SetUint(7)
		}
	case reflect.Interface:
		if nonzero && v.NumMethod() == 0 {
			v.Set(reflect.ValueOf(int64(7)))
		}
	}
}

// generated by gocv: witnesses of the JSON round-trip judgement for %s
func TestGocvReplayRoundTrip(t *testing.T) {
	for _, nonzero := range []bool{false, true} {
		var v %s
		gocvFill(reflect.ValueOf(&v).Elem(), nonzero, 0)
		bz, err := json.Marshal(v)
		if err != nil {
			t.Fatalf("marshal: %%v", err)
		}
		var w %s
		if err := json.Unmarshal(bz, &w); err != nil {
			t.Fatalf("unmarshal %%s: %%v", bz, err)
		}
		if !reflect.DeepEqual(v, w) {
			t.Fatalf("round trip changed the value (nonzero=%%v)\nbefore: %%#v\njson:   %%s\nafter:  %%#v", nonzero, v, bz, w)
		}
	}
}

// generated by gocv: a record with empty fields decoded into a variable that still holds a full record
func TestGocvReplayOverwrite(t *testing.T) {
	var old, rec %s
	gocvFill(reflect.ValueOf(&old).Elem(), true, 0)
	gocvFill(reflect.ValueOf(&rec).Elem(), false, 0)
	bz, err := json.Marshal(rec)
	if err != nil {
		t.Fatalf("marshal: %%v", err)
	}
	if err := json.Unmarshal(bz, &old); err != nil {
		t.Fatalf("unmarshal %%s: %%v", bz, err)
	}
	if !reflect.DeepEqual(old, rec) {
		t.Fatalf("decoding into a reused variable keeps parts of the previous record\nrecord: %%#v\njson:   %%s\nresult: %%#v", rec, bz, old)
	}
}
`, pkg.Name(), imp.String(), typeText, typeText, typeText, typeText)
	if c.Kind == "jsonoverwrite" {
		return &ReplaySpec{PkgPath: pkgPath, TestName: "TestGocvReplayOverwrite", Source: src, What: "a record of " + typeText + " with empty fields decoded into a variable holding a full record"}
	}
	return &ReplaySpec{PkgPath: pkgPath, TestName: "TestGocvReplayRoundTrip", Source: src, What: "witness values of " + typeText + " (empty non-nil slices/maps; all fields non-zero)"}
}
