package main

import (
	"fmt"
	"go/constant"
	"go/token"
	"go/types"
	"math/big"
	"strings"

	"golang.org/x/tools/go/ssa"
)

type evalErr string

type Env struct {
	vc      *VC
	pkgPath string
	vars    map[string]TV
	cur     *State
	old     *State
	local   func(name string) (TV, bool)
	clause  *Clause
	depth   int
	side    *[]string       // ground instances of background axioms needed by the evaluated term
	strong  bool            // position where the formula is used as a hypothesis (side facts are conjoined)
	bound   map[string]bool // names bound by quantifiers / spec-function parameters (shadow program variables)
}

func (e *Env) flip() *Env {
	n := *e
	n.strong = !e.strong
	return &n
}

func (e *Env) addSide(f string) {
	if e.side != nil {
		*e.side = append(*e.side, f)
	}
}

func (e *Env) fail(f string, a ...interface{}) {
	where := ""
	if e.clause != nil {
		where = fmt.Sprintf(" [%s:%d: %s]", e.clause.File, e.clause.Line, trunc(e.clause.Text, 80))
	}
	panic(evalErr(fmt.Sprintf(f, a...) + where))
}

func (e *Env) withState(cur *State) *Env {
	n := *e
	n.cur = cur
	return &n
}

func (e *Env) bind(name string, tv TV) *Env {
	n := *e
	n.vars = make(map[string]TV, len(e.vars)+1)
	for k, v := range e.vars {
		n.vars[k] = v
	}
	n.vars[name] = tv
	n.bound = make(map[string]bool, len(e.bound)+1)
	for k := range e.bound {
		n.bound[k] = true
	}
	n.bound[name] = true
	return &n
}

func (vc *VC) entryEnv(cur, old *State) *Env {
	env := &Env{vc: vc, pkgPath: vc.pkgPath(), vars: map[string]TV{}, cur: cur, old: old}
	if vc.contract != nil {
		env.pkgPath = vc.contract.PkgPath
	}
	for k, v := range vc.params {
		env.vars[k] = v
	}
	if vc.fn.Signature.Recv() != nil && len(vc.fn.Params) > 0 {
		env.vars["self"] = vc.params[vc.fn.Params[0].Name()]
	}
	for i := 0; i < vc.fn.Signature.Params().Len(); i++ {
		off := 0
		if vc.fn.Signature.Recv() != nil {
			off = 1
		}
		if off+i < len(vc.fn.Params) {
			env.vars[fmt.Sprintf("arg%d", i)] = vc.params[vc.fn.Params[off+i].Name()]
		}
	}
	return env
}

// loopEnv resolves local variable names at loop header b; phiOver overrides header phis.
func (vc *VC) loopEnv(b *ssa.BasicBlock, st *State, phiOver map[ssa.Value]string) *Env {
	env := vc.entryEnv(st, vc.entry)
	env.local = func(name string) (TV, bool) {
		valOf := func(v ssa.Value) string {
			if phiOver != nil {
				if t, ok := phiOver[v]; ok {
					return t
				}
			}
			return vc.val(v)
		}
		if name == "$i" {
			// the index of the nearest enclosing range-over-slice loop
			for blk := b; blk != nil; blk = blk.Idom() {
				for _, ins := range blk.Instrs {
					if phi, ok := ins.(*ssa.Phi); ok && phi.Comment == "rangeindex" {
						return TV{T: valOf(phi), Ty: phi.Type()}, true
					}
				}
			}
			return TV{}, false
		}
		if name == "$range" {
			// the slice a range-over-slice loop iterates over
			for _, ins := range b.Instrs {
				phi, ok := ins.(*ssa.Phi)
				if !ok || phi.Comment != "rangeindex" {
					continue
				}
				for _, ins2 := range b.Instrs {
					if bo, ok := ins2.(*ssa.BinOp); ok && bo.Op == token.LSS {
						if add, ok := bo.X.(*ssa.BinOp); ok && add.X == phi {
							if call, ok := bo.Y.(*ssa.Call); ok {
								if bi, ok := call.Call.Value.(*ssa.Builtin); ok && bi.Name() == "len" {
									sv := call.Call.Args[0]
									return TV{T: vc.val(sv), Ty: sv.Type()}, true
								}
							}
						}
					}
				}
			}
			return TV{}, false
		}
		if name == "$visited" {
			// visited set of the map range feeding this loop
			for _, ins := range b.Instrs {
				if nx, ok := ins.(*ssa.Next); ok {
					if ri, ok := vc.rangeIt[nx.Iter]; ok {
						ks := vc.pre.sortOf(ri.mt.Key())
						return TV{T: vc.getH(st, ri.visName, "(Array "+ks+" Bool)"), Ty: &RawMap{Key: ri.mt.Key(), Elem: boolT}}, true
					}
				}
			}
			return TV{}, false
		}
		for _, ins := range b.Instrs {
			if phi, ok := ins.(*ssa.Phi); ok && phi.Comment == name {
				return TV{T: valOf(phi), Ty: phi.Type()}, true
			}
		}
		// address-taken local
		for _, blk := range vc.fn.Blocks {
			for _, ins := range blk.Instrs {
				if al, ok := ins.(*ssa.Alloc); ok && al.Comment == name {
					if _, ok := vc.vals[al]; !ok {
						continue
					}
					a := vc.addrOf(al)
					return TV{T: vc.load(a, st), Ty: al.Type().(*types.Pointer).Elem()}, true
				}
			}
		}
		// a value bound to the name by a DebugRef in a dominating block
		var found ssa.Value
		for _, blk := range vc.fn.Blocks {
			if !blk.Dominates(b) || blk == b {
				continue
			}
			for _, ins := range blk.Instrs {
				if dr, ok := ins.(*ssa.DebugRef); ok && !dr.IsAddr {
					if id := identName(dr); id == name {
						if _, ok := vc.vals[dr.X]; ok || isConst(dr.X) {
							found = dr.X
						}
					}
				}
			}
		}
		if found != nil {
			return TV{T: valOf(found), Ty: found.Type()}, true
		}
		return TV{}, false
	}
	return env
}

func isConst(v ssa.Value) bool { _, ok := v.(*ssa.Const); return ok }

func identName(dr *ssa.DebugRef) string {
	if obj := dr.Object(); obj != nil {
		return obj.Name()
	}
	return ""
}

// evalBool evaluates a clause used as an assumption: side facts are conjoined.
func (vc *VC) evalBool(env *Env, e Expr, c *Clause) string {
	en0 := *env
	en0.strong = true
	env = &en0
	t, side := vc.evalSide(env, e, c)
	if len(side) == 0 {
		return t
	}
	return "(and " + strings.Join(side, " ") + " " + t + ")"
}

// evalGoal evaluates a clause used as a proof goal: side facts become hypotheses.
func (vc *VC) evalGoal(env *Env, e Expr, c *Clause) string {
	en0 := *env
	en0.strong = false
	env = &en0
	t, side := vc.evalSide(env, e, c)
	if len(side) == 0 {
		return t
	}
	return "(=> (and " + strings.Join(side, " ") + ") " + t + ")"
}

func (vc *VC) evalSide(env *Env, e Expr, c *Clause) (string, []string) {
	en := *env
	en.clause = c
	var side []string
	en.side = &side
	tv := en.eval(e)
	if tv.Ty != nil && vc.pre.sortOf(tv.Ty) != "Bool" {
		en.fail("clause is not boolean")
	}
	return tv.T, side
}

func (vc *VC) ghostAssign(env *Env, ga *GhostAssign, st *State) {
	gv, ok := vc.P.Spec.GhostVars[ga.Var]
	if !ok {
		panic(evalErr(fmt.Sprintf("unknown ghost variable %s", ga.Var)))
	}
	t, err := vc.P.resolveType(gv.Type, gv.PkgPath)
	if err != nil {
		panic(evalErr(err.Error()))
	}
	tv := env.eval(ga.E)
	vc.setH(st, ga.Var, vc.pre.sortOf(t), tv.T)
}

// BytesVal is the type of content(b) values (abstract byte strings)
type BytesVal struct{}

func (b *BytesVal) Underlying() types.Type { return b }
func (b *BytesVal) String() string         { return "bytesvalue" }

var bytesT = &BytesVal{}

func (vc *VC) contentOf(s string, st *State) string {
	n, hs := vc.arrHeap(types.Typ[types.Uint8])
	return fmt.Sprintf("(bcontent (select %s (s_ref %s)) (s_off %s) (s_len %s))", vc.getH(st, n, hs), s, s, s)
}

var boolT = types.Typ[types.Bool]
var intT = types.Typ[types.Int]

func (e *Env) eval(x Expr) TV {
	vc := e.vc
	switch x := x.(type) {
	case *EInt:
		b, ok := new(big.Int).SetString(x.Val, 0)
		if !ok {
			e.fail("bad integer %s", x.Val)
		}
		return TV{T: intLit(b), Ty: types.Typ[types.UntypedInt]}
	case *EStr:
		return TV{T: vc.pre.strLit(unescape(x.Val)), Ty: types.Typ[types.String]}
	case *EIdent:
		return e.ident(x.Name)
	case *EUnary:
		if x.Op == "!" {
			v := e.flip().eval(x.X)
			return TV{T: "(not " + v.T + ")", Ty: boolT}
		}
		v := e.eval(x.X)
		return TV{T: "(- " + v.T + ")", Ty: v.Ty}
	case *EBinary:
		return e.binary(x)
	case *ESel:
		return e.selector(x)
	case *EIndex:
		return e.index(x)
	case *ESliceE:
		v := e.eval(x.X)
		lo, hi := "0", ""
		if x.Lo != nil {
			lo = e.eval(x.Lo).T
		}
		if vc.pre.sortOf(v.Ty) == "Str" {
			if x.Hi != nil {
				hi = e.eval(x.Hi).T
			} else {
				hi = "(slen " + v.T + ")"
			}
			r := fmt.Sprintf("(ssub %s %s %s)", v.T, lo, hi)
			e.addSide(fmt.Sprintf("(= (slen %s) (- %s %s))", r, hi, lo))
			return TV{T: r, Ty: v.Ty}
		}
		if x.Hi != nil {
			hi = e.eval(x.Hi).T
		} else {
			hi = "(s_len " + v.T + ")"
		}
		return TV{T: fmt.Sprintf("(mk_slice (s_ref %s) (+ (s_off %s) %s) (- %s %s))", v.T, v.T, lo, hi, lo), Ty: v.Ty}
	case *ECall:
		return e.call(x)
	case *ETypeAssert:
		v := e.eval(x.X)
		t, err := vc.P.resolveType(x.T, e.pkgPath)
		if err != nil {
			e.fail("%v", err)
		}
		if _, isI := types.Unalias(t).Underlying().(*types.Interface); isI {
			return TV{T: v.T, Ty: t}
		}
		bn, un := vc.pre.boxFns(t)
		e.addSide(fmt.Sprintf("(=> (= (typeof %s) %d) (= (%s (%s %s)) %s))", v.T, vc.pre.typeID(t), bn, un, v.T, v.T))
		return TV{T: fmt.Sprintf("(%s %s)", un, v.T), Ty: t}
	case *EQuant:
		en := e
		var bs []string
		var bnames []string
		var guards []string
		for _, b := range x.Vars {
			t, err := vc.P.resolveType(b.Type, e.pkgPath)
			if err != nil {
				e.fail("%v", err)
			}
			n := fmt.Sprintf("%s!q%d", b.Name, vc.nextN())
			n = q(n)
			bs = append(bs, fmt.Sprintf("(%s %s)", n, vc.pre.sortOf(t)))
			bnames = append(bnames, n)
			en = en.bind(b.Name, TV{T: n, Ty: t})
			// quantifiers over references range over allocated objects only
			switch types.Unalias(t).Underlying().(type) {
			case *types.Pointer, *types.Map:
				// ... that existed in the old state of the clause (function entry / before the call):
				// objects allocated later are reached through keys and indices, never through such a quantifier
				guards = append(guards, fmt.Sprintf("(and (<= 0 %s) (< %s %s))", n, n, vc.getH(e.old, "$next", "Int")))
			}
		}
		var inner []string
		inner = append(inner, guards...)
		en2 := *en
		en2.side = &inner
		body := en2.eval(x.Body)
		// side facts are valid axiom instances: as hypotheses they are conjoined, as goals they are assumed;
		// the range guards of reference-typed binders restrict the quantifier itself
		ax := inner[len(guards):]
		bt := body.T
		if len(ax) > 0 {
			if en.strong {
				bt = "(and " + strings.Join(ax, " ") + " " + bt + ")"
			} else {
				bt = "(=> (and " + strings.Join(ax, " ") + ") " + bt + ")"
			}
		}
		if x.Forall {
			if len(guards) > 0 {
				bt = "(=> (and " + strings.Join(guards, " ") + ") " + bt + ")"
			}
			if pats := inferPatterns(bnames, bt); pats != "" && !strings.Contains(bt, "(forall ") && !strings.Contains(bt, "(exists ") {
				bt = "(! " + bt + " " + pats + ")"
			}
			return TV{T: fmt.Sprintf("(forall (%s) %s)", strings.Join(bs, " "), bt), Ty: boolT}
		}
		if len(guards) > 0 {
			bt = "(and " + strings.Join(guards, " ") + " " + bt + ")"
		}
		if pats := inferPatterns(bnames, bt); pats != "" && !strings.Contains(bt, "(forall ") && !strings.Contains(bt, "(exists ") {
			bt = "(! " + bt + " " + pats + ")"
		}
		return TV{T: fmt.Sprintf("(exists (%s) %s)", strings.Join(bs, " "), bt), Ty: boolT}
	}
	e.fail("unsupported expression %T", x)
	return TV{}
}

func unescape(s string) string {
	s = strings.ReplaceAll(s, `\"`, `"`)
	s = strings.ReplaceAll(s, `\n`, "\n")
	s = strings.ReplaceAll(s, `\\`, `\`)
	return s
}

func (e *Env) ident(name string) TV {
	vc := e.vc
	switch name {
	case "true":
		return TV{T: "true", Ty: boolT}
	case "false":
		return TV{T: "false", Ty: boolT}
	case "nil":
		return TV{IsNil: true}
	}
	if _, isParam := e.vars[name]; isParam && !e.bound[name] && e.local != nil && !strings.HasPrefix(name, "$") && name != "self" && name != "recv" && !strings.HasPrefix(name, "arg") && !strings.HasPrefix(name, "result") {
		// a parameter that the function reassigns: inside a loop its current value is the loop's merge value
		if tv, ok := e.local(name); ok {
			return tv
		}
	}
	if tv, ok := e.vars[name]; ok {
		return tv
	}
	if strings.HasPrefix(name, "$") {
		if e.local != nil {
			if tv, ok := e.local(name); ok {
				return tv
			}
		}
		if gv, ok := vc.P.Spec.GhostVars[name]; ok {
			t, err := vc.P.resolveType(gv.Type, gv.PkgPath)
			if err != nil {
				e.fail("%v", err)
			}
			return TV{T: vc.getH(e.cur, name, vc.pre.sortOf(t)), Ty: t}
		}
		if name == "$next" {
			return TV{T: vc.getH(e.cur, "$next", "Int"), Ty: intT}
		}
		e.fail("unknown ghost variable %s", name)
	}
	if e.local != nil {
		if tv, ok := e.local(name); ok {
			return tv
		}
	}
	if p := vc.P.PkgByPath[e.pkgPath]; p != nil {
		if obj := p.Scope().Lookup(name); obj != nil {
			return e.object(obj)
		}
	}
	if obj := types.Universe.Lookup(name); obj != nil {
		if c, ok := obj.(*types.Const); ok {
			return e.constVal(c.Val(), c.Type())
		}
	}
	e.fail("unknown identifier %s", name)
	return TV{}
}

func (e *Env) constVal(v constant.Value, t types.Type) TV {
	vc := e.vc
	switch v.Kind() {
	case constant.Bool:
		if constant.BoolVal(v) {
			return TV{T: "true", Ty: t}
		}
		return TV{T: "false", Ty: t}
	case constant.String:
		return TV{T: vc.pre.strLit(constant.StringVal(v)), Ty: t}
	case constant.Int:
		b, _ := new(big.Int).SetString(v.ExactString(), 10)
		return TV{T: intLit(b), Ty: t}
	}
	e.fail("unsupported constant kind")
	return TV{}
}

func (e *Env) object(obj types.Object) TV {
	vc := e.vc
	switch o := obj.(type) {
	case *types.Const:
		return e.constVal(o.Val(), o.Type())
	case *types.Var:
		// package-level variable
		if sp := vc.P.SSA.Package(o.Pkg()); sp != nil {
			if g, ok := sp.Members[o.Name()].(*ssa.Global); ok {
				return TV{T: vc.getH(e.cur, globalHeap(g), vc.pre.sortOf(o.Type())), Ty: o.Type()}
			}
		}
		hn := "G:" + o.Pkg().Path() + "." + o.Name()
		return TV{T: vc.getH(e.cur, hn, vc.pre.sortOf(o.Type())), Ty: o.Type()}
	}
	e.fail("identifier %s is not a value", obj.Name())
	return TV{}
}

func (e *Env) selector(x *ESel) TV {
	vc := e.vc
	// package-qualified identifier?
	if id, ok := x.X.(*EIdent); ok {
		if _, isVar := e.vars[id.Name]; !isVar {
			isLocal := false
			if e.local != nil {
				_, isLocal = e.local(id.Name)
			}
			if !isLocal {
				if p := vc.P.lookupPkg(id.Name, e.pkgPath); p != nil {
					if own := vc.P.PkgByPath[e.pkgPath]; own == nil || own.Scope().Lookup(id.Name) == nil {
						obj := p.Scope().Lookup(x.Sel)
						if obj == nil {
							e.fail("unknown %s.%s", id.Name, x.Sel)
						}
						return e.object(obj)
					}
				}
			}
		}
	}
	v := e.eval(x.X)
	if v.Ty == nil {
		e.fail("selector on untyped value")
	}
	return e.fieldOf(v, x.Sel)
}

// fieldOf selects (possibly promoted) field name of v, dereferencing pointers through the current heap.
func (e *Env) fieldOf(v TV, name string) TV {
	vc := e.vc
	obj, path, _ := types.LookupFieldOrMethod(v.Ty, true, nil, name)
	if obj == nil {
		// unexported field from another package
		obj, path = lookupFieldAnyPkg(v.Ty, name)
	}
	fv, ok := obj.(*types.Var)
	if !ok || fv == nil {
		e.fail("no field %s in %s", name, typeStr(v.Ty))
	}
	cur := v
	for _, idx := range path {
		t := types.Unalias(cur.Ty)
		if pt, ok := t.Underlying().(*types.Pointer); ok {
			st := types.Unalias(pt.Elem())
			if !isExpandedStruct(st) {
				e.fail("field of opaque type %s", typeStr(st))
			}
			ft := st.Underlying().(*types.Struct).Field(idx).Type()
			cur = TV{T: fmt.Sprintf("(select %s %s)", vc.getH(e.cur, fieldHeap(st, idx), vc.fieldHeapSort(st, idx)), cur.T), Ty: ft}
			e.closed(cur)
			continue
		}
		if !isExpandedStruct(t) {
			e.fail("field of opaque type %s", typeStr(t))
		}
		vc.pre.sortOf(t)
		ft := t.Underlying().(*types.Struct).Field(idx).Type()
		cur = TV{T: fmt.Sprintf("(%s %s)", fieldAcc(t, idx), cur.T), Ty: ft}
	}
	return cur
}

// closed records the heap-closedness instance for a reference read from the heap: references stored
// in allocated objects denote allocated objects (the same fact the VC generator assumes at every load).
func (e *Env) closed(v TV) {
	switch types.Unalias(v.Ty).Underlying().(type) {
	case *types.Pointer, *types.Map, *types.Slice:
		if f := e.vc.rangeFact(v.T, v.Ty, e.cur); f != "" {
			e.addSide(f)
		}
	}
}

func lookupFieldAnyPkg(t types.Type, name string) (types.Object, []int) {
	t = types.Unalias(t)
	if pt, ok := t.Underlying().(*types.Pointer); ok {
		t = types.Unalias(pt.Elem())
	}
	st, ok := t.Underlying().(*types.Struct)
	if !ok {
		return nil, nil
	}
	for i := 0; i < st.NumFields(); i++ {
		if st.Field(i).Name() == name {
			return st.Field(i), []int{i}
		}
	}
	for i := 0; i < st.NumFields(); i++ {
		if st.Field(i).Embedded() {
			if o, p := lookupFieldAnyPkg(st.Field(i).Type(), name); o != nil {
				return o, append([]int{i}, p...)
			}
		}
	}
	return nil, nil
}

func (e *Env) index(x *EIndex) TV {
	vc := e.vc
	v := e.eval(x.X)
	i := e.eval(x.I)
	if v.Ty == nil {
		e.fail("index of untyped value")
	}
	if rm, ok := v.Ty.(*RawMap); ok {
		return TV{T: fmt.Sprintf("(select %s %s)", v.T, i.T), Ty: rm.Elem}
	}
	switch t := types.Unalias(v.Ty).Underlying().(type) {
	case *types.Slice:
		n, s := vc.arrHeap(t.Elem())
		e.addSide(fmt.Sprintf("(= (idx %s %s) (+ (s_off %s) %s))", v.T, i.T, v.T, i.T))
		r := TV{T: fmt.Sprintf("(select (select %s (s_ref %s)) (idx %s %s))", vc.getH(e.cur, n, s), v.T, v.T, i.T), Ty: t.Elem()}
		e.closed(r)
		return r
	case *types.Map:
		_, val := vc.mapRead(t, v.T, i.T, e.cur)
		r := TV{T: val, Ty: t.Elem()}
		e.closed(r)
		return r
	case *types.Array:
		return TV{T: fmt.Sprintf("(select %s %s)", v.T, i.T), Ty: t.Elem()}
	case *types.Basic:
		return TV{T: fmt.Sprintf("(schar %s %s)", v.T, i.T), Ty: types.Typ[types.Uint8]}
	case *types.Pointer:
		if at, ok := types.Unalias(t.Elem()).Underlying().(*types.Array); ok {
			n, s := vc.arrHeap(at.Elem())
			return TV{T: fmt.Sprintf("(select (select %s %s) %s)", vc.getH(e.cur, n, s), v.T, i.T), Ty: at.Elem()}
		}
	}
	e.fail("cannot index %s", typeStr(v.Ty))
	return TV{}
}

func (e *Env) nilOf(t types.Type) string {
	return e.vc.pre.zeroOf(t)
}

func (e *Env) binary(x *EBinary) TV {
	vc := e.vc
	switch x.Op {
	case "&&", "||", "==>", "<==>":
		var a TV
		if x.Op == "==>" {
			a = e.flip().eval(x.X)
		} else {
			a = e.eval(x.X)
		}
		b := e.eval(x.Y)
		op := map[string]string{"&&": "and", "||": "or", "==>": "=>", "<==>": "="}[x.Op]
		return TV{T: fmt.Sprintf("(%s %s %s)", op, a.T, b.T), Ty: boolT}
	case "in":
		k := e.eval(x.X)
		m := e.eval(x.Y)
		if _, ok := m.Ty.(*RawMap); ok {
			return TV{T: fmt.Sprintf("(select %s %s)", m.T, k.T), Ty: boolT}
		}
		if mt, ok := types.Unalias(m.Ty).Underlying().(*types.Map); ok {
			ok2, _ := vc.mapRead(mt, m.T, k.T, e.cur)
			return TV{T: fmt.Sprintf("(and (not (= %s 0)) %s)", m.T, ok2), Ty: boolT}
		}
		e.fail("'in' needs a map")
	}
	a, b := e.eval(x.X), e.eval(x.Y)
	if a.IsNil && b.IsNil {
		return TV{T: map[string]string{"==": "true", "!=": "false"}[x.Op], Ty: boolT}
	}
	if a.IsNil {
		a, b = b, a
	}
	if b.IsNil {
		var eq string
		if _, isSlice := types.Unalias(a.Ty).Underlying().(*types.Slice); isSlice {
			eq = fmt.Sprintf("(= (s_ref %s) 0)", a.T)
		} else {
			eq = fmt.Sprintf("(= %s %s)", a.T, e.nilOf(a.Ty))
		}
		switch x.Op {
		case "==":
			return TV{T: eq, Ty: boolT}
		case "!=":
			return TV{T: "(not " + eq + ")", Ty: boolT}
		}
		e.fail("nil operand of %s", x.Op)
	}
	ty := a.Ty
	if isUntyped(ty) {
		ty = b.Ty
	}
	switch x.Op {
	case "==":
		return TV{T: fmt.Sprintf("(= %s %s)", a.T, b.T), Ty: boolT}
	case "!=":
		return TV{T: fmt.Sprintf("(not (= %s %s))", a.T, b.T), Ty: boolT}
	case "<", "<=", ">", ">=":
		return TV{T: fmt.Sprintf("(%s %s %s)", x.Op, a.T, b.T), Ty: boolT}
	case "+":
		if ty != nil && vc.pre.sortOf(ty) == "Str" {
			return TV{T: fmt.Sprintf("(sconcat %s %s)", a.T, b.T), Ty: ty}
		}
		return TV{T: fmt.Sprintf("(+ %s %s)", a.T, b.T), Ty: ty}
	case "-":
		return TV{T: fmt.Sprintf("(- %s %s)", a.T, b.T), Ty: ty}
	case "*":
		return TV{T: fmt.Sprintf("(* %s %s)", a.T, b.T), Ty: ty}
	case "/":
		return TV{T: fmt.Sprintf("(div %s %s)", a.T, b.T), Ty: ty}
	case "%":
		return TV{T: fmt.Sprintf("(mod %s %s)", a.T, b.T), Ty: ty}
	}
	e.fail("unsupported operator %s", x.Op)
	return TV{}
}

func isUntyped(t types.Type) bool {
	if b, ok := t.(*types.Basic); ok {
		return b.Info()&types.IsUntyped != 0
	}
	return t == nil
}

func (e *Env) call(x *ECall) TV {
	vc := e.vc
	// builtins and spec functions by plain name
	if id, ok := x.Fun.(*EIdent); ok {
		switch id.Name {
		case "old":
			if len(x.Args) != 1 {
				e.fail("old(e)")
			}
			return e.withState(e.old).eval(x.Args[0])
		case "len":
			v := e.eval(x.Args[0])
			switch t := types.Unalias(v.Ty).Underlying().(type) {
			case *types.Slice:
				return TV{T: "(s_len " + v.T + ")", Ty: intT}
			case *types.Basic:
				e.addSide(strFacts(v.T))
				return TV{T: "(slen " + v.T + ")", Ty: intT}
			case *types.Map:
				r := vc.mapLen(t, v.T, e.cur)
				e.addSide(fmt.Sprintf("(>= %s 0)", r))
				return TV{T: r, Ty: intT}
			case *types.Array:
				return TV{T: fmt.Sprintf("%d", t.Len()), Ty: intT}
			}
			e.fail("len of %s", typeStr(v.Ty))
		case "ite":
			c, a, b := e.eval(x.Args[0]), e.eval(x.Args[1]), e.eval(x.Args[2])
			ty := a.Ty
			if a.IsNil {
				ty = b.Ty
				a.T = e.nilOf(ty)
			}
			if b.IsNil {
				b.T = e.nilOf(ty)
			}
			if isUntyped(ty) {
				ty = b.Ty
			}
			return TV{T: fmt.Sprintf("(ite %s %s %s)", c.T, a.T, b.T), Ty: ty}
		case "istype":
			v := e.eval(x.Args[0])
			t, err := vc.P.resolveType(typeText(x.Args[1]), e.pkgPath)
			if err != nil {
				e.fail("%v", err)
			}
			vc.pre.boxFns(t)
			return TV{T: fmt.Sprintf("(= (typeof %s) %d)", v.T, vc.pre.typeID(t)), Ty: boolT}
		case "box":
			v := e.eval(x.Args[0])
			bn, un := vc.pre.boxFns(v.Ty)
			r := fmt.Sprintf("(%s %s)", bn, v.T)
			e.addSide(fmt.Sprintf("(and (= (%s %s) %s) (= (typeof %s) %d))", un, r, v.T, r, vc.pre.typeID(v.Ty)))
			return TV{T: r, Ty: types.NewInterfaceType(nil, nil)}
		case "beq": // pointwise equality of two slices in the current heap
			a, b := e.eval(x.Args[0]), e.eval(x.Args[1])
			return TV{T: e.sliceEq(a, e.cur, b, e.cur), Ty: boolT}
		case "beqold": // beqold(a, b): a in current heap equals b in old heap
			a := e.eval(x.Args[0])
			b := e.withState(e.old).eval(x.Args[1])
			return TV{T: e.sliceEq(a, e.cur, b, e.old), Ty: boolT}
		case "fresh": // allocated during the call/function
			v := e.eval(x.Args[0])
			ref := v.T
			if _, ok := types.Unalias(v.Ty).Underlying().(*types.Slice); ok {
				ref = "(s_ref " + v.T + ")"
			}
			return TV{T: fmt.Sprintf("(>= %s %s)", ref, vc.getH(e.old, "$next", "Int")), Ty: boolT}
		case "allocated": // allocated(p): p is nil or an object allocated by now
			v := e.eval(x.Args[0])
			ref := v.T
			if _, ok := types.Unalias(v.Ty).Underlying().(*types.Slice); ok {
				ref = "(s_ref " + v.T + ")"
			}
			return TV{T: fmt.Sprintf("(and (<= 0 %s) (< %s %s))", ref, ref, vc.getH(e.cur, "$next", "Int")), Ty: boolT}
		case "card":
			v := e.eval(x.Args[0])
			if rm, ok := v.Ty.(*RawMap); ok {
				r := fmt.Sprintf("(%s %s)", vc.pre.cardFn(vc.pre.sortOf(rm)), v.T)
				e.addSide(fmt.Sprintf("(>= %s 0)", r))
				return TV{T: r, Ty: intT}
			}
			if mt, ok := types.Unalias(v.Ty).Underlying().(*types.Map); ok {
				r := vc.mapLen(mt, v.T, e.cur)
				e.addSide(fmt.Sprintf("(>= %s 0)", r))
				return TV{T: r, Ty: intT}
			}
			e.fail("card of non-set")
		case "dom":
			v := e.eval(x.Args[0])
			if mt, ok := types.Unalias(v.Ty).Underlying().(*types.Map); ok {
				dn, ds, _, _ := vc.mapHeaps(mt)
				return TV{T: fmt.Sprintf("(select %s %s)", vc.getH(e.cur, dn, ds), v.T), Ty: &RawMap{Key: mt.Key(), Elem: boolT}}
			}
			e.fail("dom of non-map")
		case "vals": // the value map of a Go map (meaningful on dom only)
			v := e.eval(x.Args[0])
			if mt, ok := types.Unalias(v.Ty).Underlying().(*types.Map); ok {
				_, _, vn, vs := vc.mapHeaps(mt)
				return TV{T: fmt.Sprintf("(select %s %s)", vc.getH(e.cur, vn, vs), v.T), Ty: &RawMap{Key: mt.Key(), Elem: mt.Elem()}}
			}
			e.fail("vals of non-map")
		case "fieldmap": // fieldmap(T.f): the current heap of field f as a map from *T to the field type
			tt := typeText(x.Args[0])
			i := strings.LastIndex(tt, ".")
			if i < 0 {
				e.fail("fieldmap(T.f)")
			}
			t, err := vc.P.resolveType(tt[:i], e.pkgPath)
			if err != nil || !isExpandedStruct(t) {
				e.fail("fieldmap: bad struct type %s", tt[:i])
			}
			t = types.Unalias(t)
			st := t.Underlying().(*types.Struct)
			for j := 0; j < st.NumFields(); j++ {
				if st.Field(j).Name() == tt[i+1:] {
					return TV{T: vc.getH(e.cur, fieldHeap(t, j), vc.fieldHeapSort(t, j)), Ty: &RawMap{Key: types.NewPointer(t), Elem: st.Field(j).Type()}}
				}
			}
			e.fail("fieldmap: no field %s", tt[i+1:])
		case "with": // with(m, k, v): m updated at k
			m, k, v := e.eval(x.Args[0]), e.eval(x.Args[1]), e.eval(x.Args[2])
			rm, ok := m.Ty.(*RawMap)
			if !ok {
				e.fail("with() needs a mathematical map")
			}
			if v.IsNil {
				v.T = e.nilOf(rm.Elem)
			}
			return TV{T: fmt.Sprintf("(store %s %s %s)", m.T, k.T, v.T), Ty: rm}
		case "unchanged": // unchanged(pattern): objects that existed in the old state are unchanged in the named heaps
			var conj []string
			for _, a := range x.Args {
				pat := typeText(a)
				tmp := &Contract{Modifies: []string{pat}, HasMod: true, PkgPath: e.pkgPath, File: "unchanged()", Line: 0}
				heaps := sortedKeys(vc.resolveModifies(tmp))
				if len(heaps) == 0 {
					e.fail("unchanged(%s): no such heap", pat)
				}
				for _, h := range heaps {
					hs := vc.heapSortByName(h)
					if s2, ok := vc.pre.heapSort[h]; ok {
						hs = s2
					}
					if hs == "" {
						e.fail("unchanged(%s): unknown heap %s", pat, h)
					}
					cur, old := vc.getH(e.cur, h, hs), vc.getH(e.old, h, hs)
					if cur == old {
						continue
					}
					if strings.HasPrefix(hs, "(Array Int ") {
						r := q(fmt.Sprintf("r!%d", vc.nextN()))
						conj = append(conj, fmt.Sprintf("(forall ((%s Int)) (! (=> (and (<= 0 %s) (< %s %s)) (= (select %s %s) (select %s %s))) :pattern ((select %s %s))))", r, r, r, vc.getH(e.old, "$next", "Int"), cur, r, old, r, cur, r))
					} else {
						conj = append(conj, fmt.Sprintf("(= %s %s)", cur, old))
					}
				}
			}
			if len(conj) == 0 {
				return TV{T: "true", Ty: boolT}
			}
			return TV{T: "(and " + strings.Join(conj, " ") + ")", Ty: boolT}
		case "onlyarray": // onlyarray(s): in the element heap of s, only the backing array of s may differ from the old state
			v := e.eval(x.Args[0])
			st, ok := types.Unalias(v.Ty).Underlying().(*types.Slice)
			if !ok {
				e.fail("onlyarray needs a slice")
			}
			n, hs := vc.arrHeap(st.Elem())
			cur, old := vc.getH(e.cur, n, hs), vc.getH(e.old, n, hs)
			if cur == old {
				return TV{T: "true", Ty: boolT}
			}
			r := q(fmt.Sprintf("r!%d", vc.nextN()))
			return TV{T: fmt.Sprintf("(forall ((%s Int)) (! (=> (not (= %s (s_ref %s))) (= (select %s %s) (select %s %s))) :pattern ((select %s %s))))", r, r, v.T, cur, r, old, r, cur, r), Ty: boolT}
		case "content": // content(b): the byte string held by slice b in the current heap, as an abstract value
			v := e.eval(x.Args[0])
			return TV{T: vc.contentOf(v.T, e.cur), Ty: bytesT}
		case "machineTable": // machineTable(f, "machine name", mach): ground facts from the real constructor (tools/tabledump)
			f, mach := e.eval(x.Args[0]), e.eval(x.Args[2])
			t, err := vc.machineTableFacts(f.T, mach.T, typeText(x.Args[1]), e.cur)
			if err != nil {
				e.fail("%v", err)
			}
			vc.r().groundUsed["machine table of "+typeText(x.Args[1])+" (evaluated by running the real constructor New())"] = true
			if !strings.Contains(t, "!q") {
				r := vc.r()
				if r.memo == nil {
					r.memo = map[string]string{}
				}
				if n, ok := r.memo[t]; ok {
					return TV{T: n, Ty: boolT}
				}
				n := vc.define("mtable", "Bool", t)
				r.memo[t] = n
				return TV{T: n, Ty: boolT}
			}
			return TV{T: t, Ty: boolT}
		case "machOf": // machOf(f, "machine name"): the machine struct whose methods are the callbacks of engine f
			f := e.eval(x.Args[0])
			t, ty, err := vc.machOfTerm(f.T, typeText(x.Args[1]), e.cur)
			if err != nil {
				e.fail("%v", err)
			}
			return TV{T: t, Ty: ty}
		case "bytesof": // bytesof(s): the bytes of string s as an abstract byte string
			v := e.eval(x.Args[0])
			return TV{T: fmt.Sprintf("(s2c %s)", v.T), Ty: bytesT}
		case "loc0": // loc0(name): the FIRST value the caller's local variable of that name was bound to
			nm := typeText(x.Args[0])
			if e.local != nil {
				if tv, ok := e.local("0:" + nm); ok {
					return tv
				}
			}
			e.fail("no local variable %s here", nm)
		case "loc": // loc(name): the caller's local variable of that name (at call-site assertions, where callee parameter names shadow)
			nm := typeText(x.Args[0])
			if e.local != nil {
				if tv, ok := e.local(nm); ok {
					return tv
				}
			}
			e.fail("no local variable %s here", nm)
		case "acontent": // acontent(a, n): the first n bytes of array value a as an abstract byte string
			a, n := e.eval(x.Args[0]), e.eval(x.Args[1])
			t := fmt.Sprintf("(bcontent %s 0 %s)", a.T, n.T)
			// bounded extensionality: the content is a function of the first n elements only
			// (congruence of the pack function then equates contents of pointwise-equal arrays)
			var cnt int
			if _, err := fmt.Sscanf(n.T, "%d", &cnt); err == nil && cnt > 0 && cnt <= 64 && fmt.Sprint(cnt) == n.T {
				pack := q(fmt.Sprintf("bpack:%d", cnt))
				vc.pre.declFun(pack, "("+strings.TrimSpace(strings.Repeat("Int ", cnt))+") Bytes")
				var els []string
				for i := 0; i < cnt; i++ {
					els = append(els, fmt.Sprintf("(select %s %d)", a.T, i))
				}
				e.addSide(fmt.Sprintf("(= %s (%s %s))", t, pack, strings.Join(els, " ")))
			}
			return TV{T: t, Ty: bytesT}
		case "arr": // arr(v0, v1, ...): a byte array literal
			t := types.NewArray(types.Typ[types.Uint8], int64(len(x.Args)))
			term := vc.pre.zeroOf(t)
			for i, a := range x.Args {
				term = fmt.Sprintf("(store %s %d %s)", term, i, e.eval(a).T)
			}
			return TV{T: term, Ty: t}
		case "emptyset":
			t, err := vc.P.resolveType(typeText(x.Args[0]), e.pkgPath)
			if err != nil {
				e.fail("%v", err)
			}
			rm := &RawMap{Key: t, Elem: boolT}
			return TV{T: fmt.Sprintf("((as const %s) false)", vc.pre.sortOf(rm)), Ty: rm}
		case "hasprefix":
			vc.pre.funDone["use:prefix"] = true
			a, b := e.eval(x.Args[0]), e.eval(x.Args[1])
			return TV{T: fmt.Sprintf("(str_hasprefix %s %s)", a.T, b.T), Ty: boolT}
		case "hassuffix":
			vc.pre.funDone["use:prefix"] = true
			a, b := e.eval(x.Args[0]), e.eval(x.Args[1])
			return TV{T: fmt.Sprintf("(str_hassuffix %s %s)", a.T, b.T), Ty: boolT}
		}
		if sf, ok := vc.P.Spec.SpecFuncs[id.Name]; ok {
			return e.specCall(sf, x.Args)
		}
		// conversion T(x) with T in package scope
		if t, err := vc.P.resolveType(id.Name, e.pkgPath); err == nil && len(x.Args) == 1 {
			return e.convert(e.eval(x.Args[0]), t)
		}
		e.fail("unknown function %s", id.Name)
	}
	// pkg.T(x) conversion or pkg-qualified spec function
	if sel, ok := x.Fun.(*ESel); ok {
		if id, ok := sel.X.(*EIdent); ok {
			if t, err := vc.P.resolveType(id.Name+"."+sel.Sel, e.pkgPath); err == nil && len(x.Args) == 1 {
				return e.convert(e.eval(x.Args[0]), t)
			}
		}
	}
	// conversion with composite type text, e.g. []byte(x)
	e.fail("unsupported call %s", exprString(x.Fun))
	return TV{}
}

func typeText(x Expr) string {
	switch x := x.(type) {
	case *EIdent:
		return x.Name
	case *ESel:
		return typeText(x.X) + "." + x.Sel
	case *EUnary:
		return x.Op + typeText(x.X)
	case *EStr:
		return x.Val
	case *EBinary:
		if x.Op == "*" { // parsed "map[K]*V" pieces
			return typeText(x.X) + "*" + typeText(x.Y)
		}
	case *EIndex:
		return typeText(x.X) + "[" + typeText(x.I) + "]"
	}
	return "?"
}

func (e *Env) convert(v TV, t types.Type) TV {
	if v.IsNil {
		return TV{T: e.nilOf(t), Ty: t}
	}
	fs, ts := "", e.vc.pre.sortOf(t)
	if v.Ty != nil {
		fs = e.vc.pre.sortOf(v.Ty)
	}
	if fs == ts || isUntyped(v.Ty) {
		return TV{T: v.T, Ty: t}
	}
	e.fail("unsupported conversion %s -> %s", typeStr(v.Ty), typeStr(t))
	return TV{}
}

func (e *Env) specCall(sf *SpecFunc, args []Expr) TV {
	vc := e.vc
	if len(args) != len(sf.Params) {
		e.fail("spec func %s: want %d args", sf.Name, len(sf.Params))
	}
	var rt types.Type
	if sf.Result != "" {
		t, err := vc.P.resolveType(sf.Result, sf.PkgPath)
		if err != nil {
			e.fail("%v", err)
		}
		rt = t
	}
	var avs []TV
	for i, a := range args {
		v := e.eval(a)
		pt, err := vc.P.resolveType(sf.Params[i].Type, sf.PkgPath)
		if err != nil {
			e.fail("%v", err)
		}
		if v.IsNil {
			v = TV{T: e.nilOf(pt), Ty: pt}
		}
		v.Ty = pt
		avs = append(avs, v)
	}
	if sf.Body == nil {
		// uninterpreted function
		var ss []string
		var ts []string
		for _, v := range avs {
			ss = append(ss, vc.pre.sortOf(v.Ty))
			ts = append(ts, v.T)
		}
		name := q("gf:" + sf.Name)
		vc.pre.declFun(name, "("+strings.Join(ss, " ")+") "+vc.pre.sortOf(rt))
		if len(ts) == 0 {
			return TV{T: name, Ty: rt}
		}
		return TV{T: "(" + name + " " + strings.Join(ts, " ") + ")", Ty: rt}
	}
	if e.depth > 20 {
		e.fail("spec function recursion too deep: %s", sf.Name)
	}
	en := &Env{vc: vc, pkgPath: sf.PkgPath, vars: map[string]TV{}, cur: e.cur, old: e.old, clause: e.clause, depth: e.depth + 1, side: e.side, strong: e.strong}
	for k, v := range e.vars {
		if strings.HasPrefix(k, "$") {
			en.vars[k] = v
		}
	}
	for i, p := range sf.Params {
		en.vars[p.Name] = avs[i]
	}
	r := en.eval(sf.Body)
	if rt != nil {
		if r.IsNil {
			r.T = e.nilOf(rt)
			r.IsNil = false
		}
		r.Ty = rt
	}
	// long closed results are named once and reused (keeps queries small)
	if rt != nil && len(r.T) > 160 && !strings.Contains(r.T, "!q") && !strings.Contains(r.T, "|k!") && !strings.Contains(r.T, "|r!") {
		root := vc.r()
		if root.memo == nil {
			root.memo = map[string]string{}
		}
		if n, ok := root.memo[r.T]; ok {
			r.T = n
		} else {
			n := vc.define("sf_"+sf.Name, vc.pre.sortOf(rt), r.T)
			root.memo[r.T] = n
			r.T = n
		}
	}
	return r
}

func (e *Env) sliceEq(a TV, sa *State, b TV, sb *State) string {
	vc := e.vc
	st, ok := types.Unalias(a.Ty).Underlying().(*types.Slice)
	if !ok {
		e.fail("beq needs slices")
	}
	n, s := vc.arrHeap(st.Elem())
	k := q(fmt.Sprintf("k!%d", vc.nextN()))
	return fmt.Sprintf("(and (= (s_len %s) (s_len %s)) (forall ((%s Int)) (=> (and (<= 0 %s) (< %s (s_len %s)) (= (idx %s %s) (+ (s_off %s) %s)) (= (idx %s %s) (+ (s_off %s) %s))) (= (select (select %s (s_ref %s)) (idx %s %s)) (select (select %s (s_ref %s)) (idx %s %s))))))",
		a.T, b.T, k, k, k, a.T, a.T, k, a.T, k, b.T, k, b.T, k, vc.getH(sa, n, s), a.T, a.T, k, vc.getH(sb, n, s), b.T, b.T, k)
}

// resolveModifies turns a contract's modifies patterns into heap-variable names.
func (vc *VC) resolveModifies(c *Contract) map[string]bool {
	out := map[string]bool{}
	// ghost variables assigned by the contract itself, or named in modifies, may change even in a pure function
	for _, ga := range c.Epilogue {
		out[ga.Var] = true
	}
	for _, ga := range c.Prologue {
		out[ga.Var] = true
	}
	for _, m := range c.Modifies {
		if m = strings.Trim(m, "\""); strings.HasPrefix(m, "$") {
			out[m] = true
		}
	}
	if c.Pure {
		return out
	}
	for _, m := range c.Modifies {
		m = strings.Trim(m, "\"")
		if m == "*" {
			for h := range vc.P.allWrittenHeaps() {
				if !strings.HasPrefix(h, "$") { // ghost variables change only where a contract says so
					out[h] = true
				}
			}
			continue
		}
		if strings.HasPrefix(m, "$") {
			out[m] = true
			continue
		}
		if strings.HasPrefix(m, "H") && strings.Contains(m, ":") {
			out[m] = true
			continue
		}
		// T.f  |  *T  |  []T  |  map[K]V  | pkg.Var
		if i := strings.LastIndex(m, "."); i > 0 && !strings.HasPrefix(m, "*") && !strings.HasPrefix(m, "[") && !strings.HasPrefix(m, "map[") {
			if t, err := vc.P.resolveType(m[:i], c.PkgPath); err == nil && isExpandedStruct(t) {
				st := types.Unalias(t).Underlying().(*types.Struct)
				found := false
				for j := 0; j < st.NumFields(); j++ {
					if st.Field(j).Name() == m[i+1:] {
						out[fieldHeap(types.Unalias(t), j)] = true
						vc.pre.heap(fieldHeap(types.Unalias(t), j), vc.fieldHeapSort(types.Unalias(t), j))
						found = true
					}
				}
				if found {
					continue
				}
			}
		}
		t, err := vc.P.resolveType(m, c.PkgPath)
		if err != nil {
			panic(evalErr(fmt.Sprintf("%s:%d: cannot resolve modifies %q: %v", c.File, c.Line, m, err)))
		}
		for _, h := range vc.P.heapsForType(t, vc) {
			out[h] = true
		}
	}
	return out
}
