package main

import (
	"fmt"
	"go/ast"
	"go/constant"
	"go/token"
	"go/types"
	"math/big"
	"strings"

	"golang.org/x/tools/go/ssa"
)

// Package-level variables that are initialised by a constant expression or a composite literal of
// constants and are never written by any function (inferred modsets) are constants: their initial
// value is assumed at function entry.

type constGlobal struct {
	g    *ssa.Global
	term func(vc *VC) string
}

func (P *Prog) constGlobals() map[string]*constGlobal {
	P.mu2.Lock()
	if P.cglobals != nil {
		defer P.mu2.Unlock()
		return P.cglobals
	}
	P.mu2.Unlock()
	written := P.allWrittenHeaps()
	out := map[string]*constGlobal{}
	for _, pkg := range P.Pkgs {
		if !inModule(pkg.Types) {
			continue
		}
		sp := P.SSA.Package(pkg.Types)
		if sp == nil {
			continue
		}
		for _, f := range pkg.Syntax {
			for _, d := range f.Decls {
				gd, ok := d.(*ast.GenDecl)
				if !ok || gd.Tok != token.VAR {
					continue
				}
				for _, sp0 := range gd.Specs {
					vs := sp0.(*ast.ValueSpec)
					if len(vs.Values) != len(vs.Names) {
						continue
					}
					for i, nm := range vs.Names {
						g, ok := sp.Members[nm.Name].(*ssa.Global)
						if !ok || written[globalHeap(g)] {
							continue
						}
						val := vs.Values[i]
						info := pkg.TypesInfo
						t := info.TypeOf(val)
						if t == nil {
							continue
						}
						if fn := constExprTerm(info, val, t); fn != nil {
							out[globalHeap(g)] = &constGlobal{g: g, term: fn}
						}
					}
				}
			}
		}
	}
	P.mu2.Lock()
	P.cglobals = out
	P.mu2.Unlock()
	return out
}

// constExprTerm returns a builder of the SMT term of a constant initialiser (nil if it is not one).
func constExprTerm(info *types.Info, e ast.Expr, t types.Type) func(vc *VC) string {
	if tv, ok := info.Types[e]; ok && tv.Value != nil {
		v := tv.Value
		switch v.Kind() {
		case constant.Int:
			b, ok := new(big.Int).SetString(v.ExactString(), 10)
			if !ok {
				return nil
			}
			return func(vc *VC) string { return intLit(b) }
		case constant.Bool:
			s := fmt.Sprintf("%v", constant.BoolVal(v))
			return func(vc *VC) string { return s }
		case constant.String:
			str := constant.StringVal(v)
			return func(vc *VC) string { return vc.pre.strLit(str) }
		}
		return nil
	}
	cl, ok := e.(*ast.CompositeLit)
	if !ok {
		return nil
	}
	at, ok := types.Unalias(t).Underlying().(*types.Array)
	if !ok {
		return nil
	}
	var elems []func(vc *VC) string
	idx := 0
	pos := map[int]func(vc *VC) string{}
	for _, el := range cl.Elts {
		if kv, ok := el.(*ast.KeyValueExpr); ok {
			ktv, ok := info.Types[kv.Key]
			if !ok || ktv.Value == nil {
				return nil
			}
			k, _ := constant.Int64Val(ktv.Value)
			idx = int(k)
			el = kv.Value
		}
		fn := constExprTerm(info, el, at.Elem())
		if fn == nil {
			return nil
		}
		pos[idx] = fn
		idx++
	}
	_ = elems
	return func(vc *VC) string {
		term := vc.pre.zeroOf(t)
		for i := 0; i < int(at.Len()); i++ {
			if fn, ok := pos[i]; ok {
				term = fmt.Sprintf("(store %s %d %s)", term, i, fn(vc))
			}
		}
		return term
	}
}

// assumeConstGlobals adds the initial values of the constant globals referenced by fn.
func (vc *VC) assumeConstGlobals(fn *ssa.Function) {
	cg := vc.P.constGlobals()
	seen := map[string]bool{}
	for _, b := range fn.Blocks {
		for _, ins := range b.Instrs {
			var ops []*ssa.Value
			for _, op := range ins.Operands(ops) {
				if op == nil || *op == nil {
					continue
				}
				if g, ok := (*op).(*ssa.Global); ok {
					n := globalHeap(g)
					if c, ok := cg[n]; ok && !seen[n] {
						seen[n] = true
						vc.assumeGlobal(n, c)
					}
				}
			}
		}
	}
}

func (vc *VC) assumeGlobal(name string, c *constGlobal) {
	r := vc.r()
	if r.globalsAssumed == nil {
		r.globalsAssumed = map[string]bool{}
	}
	if r.globalsAssumed[name] {
		return
	}
	r.globalsAssumed[name] = true
	t := c.g.Type().(*types.Pointer).Elem()
	vc.assume(fmt.Sprintf("(= %s %s)", vc.getH(vc.entryOrCur(), name, vc.pre.sortOf(t)), c.term(vc)))
}

func (vc *VC) entryOrCur() *State {
	return &State{h: map[string]string{}}
}

// assumeGlobalsIn assumes the constant globals whose heap names occur in text (used for lemmas/contracts).
func (vc *VC) assumeGlobalsIn(text string) {
	for n, c := range vc.P.constGlobals() {
		if strings.Contains(text, q(n+"@0")) {
			vc.assumeGlobal(n, c)
		}
	}
}
