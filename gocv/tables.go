package main

import (
	"encoding/json"
	"fmt"
	"go/token"
	"go/types"
	"os"
	"os/exec"
	"path/filepath"
	"sort"
	"strings"
)

// Ground facts about the three state machines and the pool, obtained by running the real
// constructors (tools/tabledump) against /repo's working tree on every check.

type TTransition struct {
	Source, Event, Dst string
	Internal, Auto     bool
	RunMode            int
}
type TAuto struct {
	State   string
	RunMode int
	Event   string
}
type TMachine struct {
	Type         string
	Name         string
	InitialState string
	InitialEvent string
	Transitions  []TTransition
	Auto         []TAuto
	Callbacks    map[string]string
	FinStates    []string
}
type Tables struct {
	Machines    []TMachine
	PoolStates  map[string]string
	PoolEvents  map[string]string
	PoolEntry   map[string]string
	PoolInitial string
	FromDumpErr map[string]string
}

func (P *Prog) tables() (*Tables, error) {
	P.tblOnce.Do(func() { P.loadTables() })
	return P.tbl, P.tblErr
}

func (P *Prog) loadTables() (*Tables, error) {
	dir := filepath.Join(P.VerifDir, "tools", "tabledump")
	work, err := os.MkdirTemp("", "gocv-tabledump")
	if err != nil {
		P.tblErr = err
		return nil, err
	}
	defer os.RemoveAll(work)
	for _, f := range []string{"main.go"} {
		b, err := os.ReadFile(filepath.Join(dir, f))
		if err != nil {
			P.tblErr = err
			return nil, err
		}
		os.WriteFile(filepath.Join(work, f), b, 0o644)
	}
	gomod := fmt.Sprintf("module tabledump\n\ngo 1.19\n\nrequire github.com/lidofinance/dc4bc v0.0.0\n\nreplace github.com/lidofinance/dc4bc => %s\n", P.RepoDir)
	os.WriteFile(filepath.Join(work, "go.mod"), []byte(gomod), 0o644)
	if b, err := os.ReadFile(filepath.Join(P.RepoDir, "go.sum")); err == nil {
		os.WriteFile(filepath.Join(work, "go.sum"), b, 0o644)
	}
	cmd := exec.Command("go", "run", ".")
	cmd.Dir = work
	cmd.Env = append(os.Environ(), "GOFLAGS=-mod=mod", "GOPROXY=off", "GOSUMDB=off", "GOTOOLCHAIN=local")
	out, err := cmd.Output()
	if err != nil {
		msg := ""
		if ee, ok := err.(*exec.ExitError); ok {
			msg = string(ee.Stderr)
		}
		P.tblErr = fmt.Errorf("tabledump failed (the machine constructors panic or do not build): %v\n%s", err, trunc2(msg, 2000))
		return nil, P.tblErr
	}
	var t Tables
	if err := json.Unmarshal(out, &t); err != nil {
		P.tblErr = err
		return nil, err
	}
	P.tbl = &t
	return P.tbl, nil
}

func (P *Prog) machineByName(name string) (*TMachine, error) {
	t, err := P.tables()
	if err != nil {
		return nil, err
	}
	for i := range t.Machines {
		if t.Machines[i].Name == name {
			return &t.Machines[i], nil
		}
	}
	return nil, fmt.Errorf("no machine named %q", name)
}

// machineGoType returns the *T type of the machine struct.
func (P *Prog) machineGoType(m *TMachine) (types.Type, error) {
	// m.Type is like "*signing_proposal_fsm.SigningProposalFSM"
	ts := strings.TrimPrefix(m.Type, "*")
	i := strings.Index(ts, ".")
	for _, p := range P.PkgByName[ts[:i]] {
		if inModule(p) {
			if obj := p.Scope().Lookup(ts[i+1:]); obj != nil {
				return types.NewPointer(obj.Type()), nil
			}
		}
	}
	return nil, fmt.Errorf("machine type %s not found", m.Type)
}

func (P *Prog) fsmTypes() (fsmT, trKeyT, trEventT, autoKeyT types.Type, err error) {
	p := P.PkgByPath[modulePath+"/fsm/fsm"]
	if p == nil {
		return nil, nil, nil, nil, fmt.Errorf("package fsm/fsm not loaded")
	}
	get := func(n string) types.Type {
		if o := p.Scope().Lookup(n); o != nil {
			return o.Type()
		}
		err = fmt.Errorf("fsm.%s not found", n)
		return nil
	}
	return get("FSM"), get("trKey"), get("trEvent"), get("trAutoKeyEvent"), err
}

func fieldIndex(t types.Type, name string) int {
	st := t.Underlying().(*types.Struct)
	for i := 0; i < st.NumFields(); i++ {
		if st.Field(i).Name() == name {
			return i
		}
	}
	return -1
}

// machineTableFacts: f (a *fsm.FSM) is the engine of machine `name` owned by mach, in state st.
func (vc *VC) machineTableFacts(f, mach, name string, st *State) (string, error) {
	m, err := vc.P.machineByName(name)
	if err != nil {
		return "", err
	}
	fsmT, trKeyT, trEventT, autoKeyT, err := vc.P.fsmTypes()
	if err != nil {
		return "", err
	}
	hf := func(t types.Type, field string, ref string) string {
		i := fieldIndex(t, field)
		return fmt.Sprintf("(select %s %s)", vc.getH(st, fieldHeap(t, i), vc.fieldHeapSort(t, i)), ref)
	}
	var c []string
	c = append(c, fmt.Sprintf("(not (= %s 0))", f), fmt.Sprintf("(not (= %s 0))", mach))
	c = append(c, fmt.Sprintf("(= %s %s)", hf(fsmT, "name", f), vc.pre.strLit(m.Name)))
	c = append(c, fmt.Sprintf("(= %s %s)", hf(fsmT, "initialState", f), vc.pre.strLit(m.InitialState)))
	c = append(c, fmt.Sprintf("(= %s %s)", hf(fsmT, "initialEvent", f), vc.pre.strLit(m.InitialEvent)))
	// transitions
	trMap := types.NewMap(trKeyT, types.NewPointer(trEventT))
	T := hf(fsmT, "transitions", f)
	dn, ds, vn, vs := vc.mapHeaps(trMap)
	vc.pre.sortOf(trKeyT)
	dom := fmt.Sprintf("(select %s %s)", vc.getH(st, dn, ds), T)
	vals := fmt.Sprintf("(select %s %s)", vc.getH(st, vn, vs), T)
	c = append(c, fmt.Sprintf("(not (= %s 0))", T))
	var keys []string
	for _, tr := range m.Transitions {
		k := fmt.Sprintf("(%s %s %s)", structCtor(trKeyT), vc.pre.strLit(tr.Source), vc.pre.strLit(tr.Event))
		keys = append(keys, fmt.Sprintf("(= k %s)", k))
		te := fmt.Sprintf("(select %s %s)", vals, k)
		c = append(c, fmt.Sprintf("(not (= %s 0))", te))
		c = append(c, fmt.Sprintf("(= %s %s)", hf(trEventT, "event", te), vc.pre.strLit(tr.Event)))
		c = append(c, fmt.Sprintf("(= %s %s)", hf(trEventT, "dstState", te), vc.pre.strLit(tr.Dst)))
		c = append(c, fmt.Sprintf("(= %s %v)", hf(trEventT, "isInternal", te), tr.Internal))
		c = append(c, fmt.Sprintf("(= %s %v)", hf(trEventT, "isAuto", te), tr.Auto))
	}
	c = append(c, fmt.Sprintf("(forall ((k %s)) (! (= (select %s k) (or %s)) :pattern ((select %s k))))", vc.pre.sortOf(trKeyT), dom, strings.Join(keys, " "), dom))
	// auto transitions
	aMap := types.NewMap(autoKeyT, types.NewPointer(trEventT))
	A := hf(fsmT, "autoTransitions", f)
	adn, ads, avn, avs := vc.mapHeaps(aMap)
	vc.pre.sortOf(autoKeyT)
	adom := fmt.Sprintf("(select %s %s)", vc.getH(st, adn, ads), A)
	avals := fmt.Sprintf("(select %s %s)", vc.getH(st, avn, avs), A)
	c = append(c, fmt.Sprintf("(not (= %s 0))", A))
	var akeys []string
	for _, a := range m.Auto {
		k := fmt.Sprintf("(%s %s %d)", structCtor(autoKeyT), vc.pre.strLit(a.State), a.RunMode)
		akeys = append(akeys, fmt.Sprintf("(= k %s)", k))
		te := fmt.Sprintf("(select %s %s)", avals, k)
		c = append(c, fmt.Sprintf("(not (= %s 0))", te))
		c = append(c, fmt.Sprintf("(= %s %s)", hf(trEventT, "event", te), vc.pre.strLit(a.Event)))
	}
	if len(akeys) == 0 {
		akeys = []string{"false"}
	}
	c = append(c, fmt.Sprintf("(forall ((k %s)) (! (= (select %s k) (or %s)) :pattern ((select %s k))))", vc.pre.sortOf(autoKeyT), adom, strings.Join(akeys, " "), adom))
	// callbacks
	cbT := fsmT.Underlying().(*types.Struct).Field(fieldIndex(fsmT, "callbacks")).Type()
	cbMap := types.Unalias(cbT).Underlying().(*types.Map)
	C := hf(fsmT, "callbacks", f)
	cdn, cds, cvn, cvs := vc.mapHeaps(cbMap)
	cdom := fmt.Sprintf("(select %s %s)", vc.getH(st, cdn, cds), C)
	cvals := fmt.Sprintf("(select %s %s)", vc.getH(st, cvn, cvs), C)
	c = append(c, fmt.Sprintf("(not (= %s 0))", C))
	vc.pre.declFun("fv_fn", "(Int) Int")
	vc.pre.declFun("fv_recv", "(Int) Int")
	var ckeys []string
	var evs []string
	for e := range m.Callbacks {
		evs = append(evs, e)
	}
	sort.Strings(evs)
	for _, e := range evs {
		k := vc.pre.strLit(e)
		ckeys = append(ckeys, fmt.Sprintf("(= k %s)", k))
		cb := fmt.Sprintf("(select %s %s)", cvals, k)
		key, err := vc.P.methodKeyOf(m, m.Callbacks[e])
		if err != nil {
			return "", err
		}
		c = append(c, fmt.Sprintf("(not (= %s 0))", cb), fmt.Sprintf("(= (fv_fn %s) %d)", cb, vc.P.fnID(key)), fmt.Sprintf("(= (fv_recv %s) %s)", cb, mach))
	}
	c = append(c, fmt.Sprintf("(forall ((k Str)) (! (= (select %s k) (or %s)) :pattern ((select %s k))))", cdom, strings.Join(ckeys, " "), cdom))
	return "(and " + strings.Join(c, " ") + ")", nil
}

func (P *Prog) methodKeyOf(m *TMachine, method string) (string, error) {
	suffix := strings.TrimPrefix(m.Type, "*") + ")." + method
	var found []string
	for k := range P.Funcs {
		if strings.HasSuffix(k, suffix) {
			found = append(found, k)
		}
	}
	if len(found) != 1 {
		return "", fmt.Errorf("callback method %s of %s: %d candidates", method, m.Type, len(found))
	}
	return found[0], nil
}

// machOfTerm: the machine struct owning engine f, read back from the receiver bound in its callbacks.
func (vc *VC) machOfTerm(f, name string, st *State) (string, types.Type, error) {
	m, err := vc.P.machineByName(name)
	if err != nil {
		return "", nil, err
	}
	fsmT, _, _, _, err := vc.P.fsmTypes()
	if err != nil {
		return "", nil, err
	}
	mt, err := vc.P.machineGoType(m)
	if err != nil {
		return "", nil, err
	}
	var evs []string
	for e := range m.Callbacks {
		evs = append(evs, e)
	}
	sort.Strings(evs)
	if len(evs) == 0 {
		return "", nil, fmt.Errorf("machine %s has no callbacks", name)
	}
	i := fieldIndex(fsmT, "callbacks")
	C := fmt.Sprintf("(select %s %s)", vc.getH(st, fieldHeap(fsmT, i), vc.fieldHeapSort(fsmT, i)), f)
	cbT := fsmT.Underlying().(*types.Struct).Field(i).Type()
	cbMap := types.Unalias(cbT).Underlying().(*types.Map)
	_, _, cvn, cvs := vc.mapHeaps(cbMap)
	vc.pre.declFun("fv_recv", "(Int) Int")
	return fmt.Sprintf("(fv_recv (select (select %s %s) %s))", vc.getH(st, cvn, cvs), C, vc.pre.strLit(evs[0])), mt, nil
}

// EvalTablesClause decides statements about the transition tables and the pool maps, which are produced by
// running the real constructors. One obligation per state, so that findings are identified by the state.
//
//	tables[Cxx.load] loadable   every state that is a source or destination of a transition in some machine
//	                            has a machine in the pool (fsm_pool.MachineByState succeeds, so FromDump can load it)
func (P *Prog) EvalTablesClause(c *Clause, unit string) ([]*Obligation, error) {
	tb, err := P.tables()
	if err != nil {
		return nil, err
	}
	what := strings.TrimSpace(c.Text)
	if strings.HasPrefix(what, "terminal ") {
		return P.evalTerminal(c, unit, tb, strings.Fields(what)[1:])
	}
	if strings.HasPrefix(what, "edge ") {
		// tables[label] edge <source state> <event> <destination state>: some machine has exactly this transition
		f := strings.Fields(what)
		if len(f) != 4 {
			return nil, fmt.Errorf("%s:%d: tables edge <source> <event> <destination>", c.File, c.Line)
		}
		o := &Obligation{Func: unit, Name: "[" + strings.Join(c.Labels, ",") + ":" + f[1] + "]", Kind: "ground", Detail: fmt.Sprintf("event %s takes a round from %s to %s", f[2], f[1], f[3]), Clause: c, Goal: "true", Guard: "true",
			Solver: "table-eval", Result: "sat", Model: fmt.Sprintf("no machine has a transition from %q by event %q to %q", f[1], f[2], f[3]), Site: token.Position{Filename: c.File, Line: c.Line}}
		for _, m := range tb.Machines {
			for _, t := range m.Transitions {
				if t.Source == f[1] && t.Event == f[2] && t.Dst == f[3] {
					o.Result, o.Model = "unsat", ""
				}
			}
		}
		return []*Obligation{o}, nil
	}
	if what != "loadable" {
		return nil, fmt.Errorf("%s:%d: unknown tables statement %q", c.File, c.Line, what)
	}
	states := map[string]string{}
	for _, m := range tb.Machines {
		for _, t := range m.Transitions {
			if _, ok := states[t.Source]; !ok {
				states[t.Source] = fmt.Sprintf("source of event %s in machine %s", t.Event, m.Name)
			}
			if _, ok := states[t.Dst]; !ok {
				states[t.Dst] = fmt.Sprintf("destination of event %s in machine %s", t.Event, m.Name)
			}
		}
	}
	var names []string
	for s := range states {
		names = append(names, s)
	}
	sort.Strings(names)
	label := strings.Join(c.Labels, ",")
	var out []*Obligation
	for _, s := range names {
		if s == "__done" {
			continue // the engine's reserved finish marker is never a round's state in these machines
		}
		o := &Obligation{Func: unit, Name: "[" + label + ":" + s + "]", Kind: "ground", Detail: "state " + s + " (" + states[s] + ") has a machine in the pool", Clause: c, Goal: "true", Guard: "true",
			Solver: "table-eval", Result: "unsat", Site: token.Position{Filename: c.File, Line: c.Line}}
		_, inPool := tb.PoolStates[s]
		if e := tb.FromDumpErr[s]; inPool && e != "" {
			o.Result = "sat"
			o.Model = fmt.Sprintf("state_machines.FromDump of a minimal dump in state %q fails: %s", s, e)
		}
		if !inPool {
			o.Result = "sat"
			o.Model = fmt.Sprintf("state %q is reachable (%s) but fsm_pool.Init registers no machine for it: MachineByState(%q) fails, so a round saved in this state cannot be restored", s, states[s], s)
		}
		if o.Result == "sat" {
			o.Replay = &ReplaySpec{PkgPath: modulePath + "/fsm/state_machines", TestName: "TestGocvReplayLoadable", What: "a dump whose State is " + s,
				Source: fmt.Sprintf(`package state_machines

import (
	"testing"

	"github.com/lidofinance/dc4bc/fsm/fsm"
	"github.com/lidofinance/dc4bc/fsm/state_machines/internal"
)

// generated by gocv: a round persisted in state %q must be loadable
func TestGocvReplayLoadable(t *testing.T) {
	d := &FSMDump{TransactionId: "round", State: fsm.State(%q), Payload: &internal.DumpedMachineStatePayload{DkgId: "round"}}
	bz, err := d.Marshal()
	if err != nil {
		t.Fatalf("marshal: %%v", err)
	}
	inst, err := FromDump(bz)
	if err != nil {
		t.Fatalf("FromDump of a round in state %%q: %%v", d.State, err)
	}
	if st, err := inst.State(); err != nil || st != d.State {
		t.Fatalf("restored round reports state %%q (%%v), saved %%q", st, err, d.State)
	}
}
`, s, s)}
		}
		out = append(out, o)
	}
	return out, nil
}

// evalTerminal decides `tables[label] terminal <machine name>...`: in the named machines every state whose name
// says cancelled (canceled / cancelled / _error / _timeout) has transitions to cancelled states only, in every
// machine, and is not the entry state of a machine: a cancelled round stays cancelled. One obligation per such state.
func (P *Prog) evalTerminal(c *Clause, unit string, tb *Tables, machines []string) ([]*Obligation, error) {
	want := map[string]bool{}
	for _, m := range machines {
		want[m] = true
	}
	isCancelled := func(s string) bool {
		return strings.Contains(s, "cancel") || strings.HasSuffix(s, "_error") || strings.HasSuffix(s, "_timeout")
	}
	states := map[string]string{}
	found := map[string]bool{}
	for _, m := range tb.Machines {
		if !want[m.Name] {
			continue
		}
		found[m.Name] = true
		for _, t := range m.Transitions {
			for _, s := range []string{t.Source, t.Dst} {
				if isCancelled(s) {
					states[s] = m.Name
				}
			}
		}
	}
	for m := range want {
		if !found[m] {
			return nil, fmt.Errorf("%s:%d: no machine named %q in the dumped tables", c.File, c.Line, m)
		}
	}
	var names []string
	for s := range states {
		names = append(names, s)
	}
	sort.Strings(names)
	if len(names) == 0 {
		return nil, fmt.Errorf("%s:%d: no cancelled state found in %v", c.File, c.Line, machines)
	}
	label := strings.Join(c.Labels, ",")
	var out []*Obligation
	for _, s := range names {
		o := &Obligation{Func: unit, Name: "[" + label + ":" + s + "]", Kind: "ground", Detail: "cancelled state " + s + " of " + states[s] + " can only move to cancelled states", Clause: c, Goal: "true", Guard: "true",
			Solver: "table-eval", Result: "unsat", Site: token.Position{Filename: c.File, Line: c.Line}}
		for _, m := range tb.Machines {
			for _, t := range m.Transitions {
				if t.Source == s && !isCancelled(t.Dst) {
					o.Result = "sat"
					o.Model = fmt.Sprintf("machine %s has a transition from cancelled state %q by event %q to %q", m.Name, s, t.Event, t.Dst)
				}
			}
			if m.InitialState == s {
				o.Result = "sat"
				o.Model = fmt.Sprintf("cancelled state %q is the initial state of machine %s", s, m.Name)
			}
		}
		out = append(out, o)
	}
	return out, nil
}
