#!/bin/bash
# usage: try_mutant.sh <patch.diff> <prop> [<prop>...]  -- applies the patch to /repo, runs the checks, reverts the patch
P="$1"; shift
cd /repo || exit 2
if [ -n "$(git status --porcelain)" ]; then echo "repo not clean, refusing"; exit 2; fi
git apply "$P" || { echo "patch does not apply"; exit 2; }
for id in "$@"; do
  (cd /verif && ./check "$id" quick > /tmp/try_mutant.$$.log 2>&1; echo "exit($id)=$?" >> /tmp/try_mutant.$$.log)
  grep -v "^$" /tmp/try_mutant.$$.log | tail -7; rm -f /tmp/try_mutant.$$.log
done
git apply -R "$P"
git status --porcelain | head -3
